"""E-gosrc: feature-directed generator of type-correct Go packages with hostile interfaces.

Everything is rendered in the *source package's* context (the harness never has to render a type
in the destination package except the type arguments of generic interfaces, which are drawn from
basic and exported foreign types). Every interface carries exactly one feature id (focused
mode) or a set of them (mixed mode), so a failing mock is attributable to a feature.
The generated module is always compiled before mockery sees it.
"""
import re

MOD = "example.com/m"

# foreign packages: key -> (directory below ext/, package name)
FOREIGN = {
    "ma": ("a/model", "model"), "mb": ("b/model", "model"), "mc": ("c/model", "model"), "odd": ("odd-dir", "oddname"), "http": ("http", "http"),
    "sync": ("sync", "sync"), "fmt": ("fmt", "fmt"), "mock": ("mock", "mock"), "testing": ("testing", "testing"),
    # import paths whose last element is not the package name in the ways module authors really use (major-version suffix, gopkg.in style,
    # go- prefix, dots): tools that guess a package name from its path guess these differently from a plain odd directory
    "v2": ("lib/v2", "lib"), "yv3": ("yaml.v3", "yaml"), "goxyz": ("go-xyz", "xyz"), "dotted": ("a.b.c", "abc"),
}
# fourteen packages with one name (client-go style api/<group>/v1 trees): more than a single-digit alias counter can number
MANY_SAME = ["s%02d" % k for k in range(14)]
FOREIGN.update({k: ("grp%s/v1" % k[1:], "v1") for k in MANY_SAME})
STD = {"io": "io", "context": "context", "nethttp": "net/http", "time": "time", "unsafe": "unsafe", "sort": "sort", "stdfmt": "fmt", "os": "os"}
# qualifiers used in the source files (explicit aliases, so two packages named `model` can coexist)
Q = {k: "q_" + k for k in FOREIGN}
Q.update({"io": "io", "context": "context", "nethttp": "http", "time": "time", "unsafe": "unsafe", "sort": "sort", "stdfmt": "fmt", "os": "os"})


def foreign_source(pkgname):
    return ("package %s\n\nimport \"context\"\n\n"
            "type T struct{ V int }\n\ntype E int\n\ntype I interface{ M(x int) string }\n\ntype F func(int) string\n\n"
            "type G[X any] struct{ V X }\n\ntype GI[X any] interface{ Get() X; Set(v X) }\n\ntype G2[K comparable, V any] struct{ M map[K]V }\n\n"
            "type C interface{ ~int | ~string }\n\ntype Num interface{ ~int | ~int64 | ~float64 }\n\n"
            "type A = T\n\ntype Ctx = context.Context\n\ntype ID = string\n\ntype Fn = func(x int) (string, error)\n\n"
            "type Str string\n\nfunc (s Str) String() string { return string(s) }\n\n"
            "type PT *T\n\ntype MT map[string]int\n\ntype FT func() error\n\ntype ST []T\n\ntype CT chan int\n") % pkgname


LOCAL_SUPPORT = """
type LS struct{ A int; B string }

type ls struct{ a int }

type LE int

type LStr string

type Größe struct{ V int }

type Ärger int

type Ünï struct{ W string }

type Rune struct{ R rune }

type Byte struct{ B byte }

type String struct{ S string }

type Int struct{ I int }

type Bool struct{ B bool }

type Error struct{ E error }

type Any struct{ A any }

type Uint8 struct{ U uint8 }

type Float64 struct{ F float64 }

type Panic = func(v any)

type Recover = func() any

type Print = func(args ...any)

type LI interface{ LM(x int) string }

type li interface{ lm() }

type LF func(a int, b ...string) (int, error)

type LG[X any] struct{ V X }

type LGI[X any] interface{ Get() X; Put(v X) error }

type LG2[K comparable, V any] struct{ M map[K]V }

type LC interface{ ~int | ~string }

type LNum interface{ ~int | ~float64 }

type LA = LS

type LAF = q_ma.T

type LCtx = context.Context

type LID = string

type LAG = LG[int]

type Base1 interface{ B1(x int) error }

type Base2 interface {
	Base1
	B2() string
}

type Base3 interface {
	Base2
	q_ma.I
	B3(v LS) LE
}

type Dia1 interface {
	Base1
	D1()
}

type Dia2 interface {
	Base1
	D2()
}

var _ context.Context
var _ q_ma.T
"""

NEUTRAL_NAMES = ["x", "val", "in", "out", "p", "q", "item", "key", "n", "s", "data", "opts", "w", "z"]
PREDECLARED = ["string", "error", "len", "append", "make", "new", "panic", "nil", "true", "false", "any", "int", "iota", "cap", "copy", "delete", "print",
               "recover", "close", "min", "max", "clear", "byte", "rune", "bool", "float64", "uint8", "complex128", "uintptr", "comparable", "println", "real", "imag"]
TEMPLATE_LOCALS = ["mock", "_mock", "_m", "_e", "_c", "ret", "ret0", "r0", "r1", "returnFunc", "ok", "run", "args", "_va", "_ca", "_i", "tmpRet", "variadicArgs",
                   "i", "a", "t", "callInfo", "calls", "mock0", "lock", "sync", "fmt", "testing", "_", "T", "Call", "Mock", "Arguments", "Run", "Return"]
CAPTURED_LOCALS = ("_c", "_ca", "_e", "_i", "_mock", "_va", "callInfo", "mock", "r0", "r1", "tmpRet")   # known findings KF-C01-12..27
QUALIFIER_NAMES = ["model", "http", "io", "context", "time", "unsafe", "oddname", "q_ma", "sort", "os", "mocks", "src"]
CASE_PAIRS = [("a", "A"), ("id", "Id", "ID"), ("url", "URL"), ("http", "HTTP"), ("x", "X")]
NONASCII = ["é", "größe", "名前", "ñandú", "Δ", "ünï"]


class Gen:
    def __init__(self, rng, srcpkg="src", inpkg_only=False, avoid=()):
        self.rng = rng
        self.srcpkg = srcpkg
        self.allow_unexported = inpkg_only
        self.avoid = set(avoid)
        self.n = 0

    # ------------------------------------------------------------ random types
    def comparable(self, tparams=()):
        r = self.rng
        opts = ["int", "string", "bool", "LE", "LStr", "%s.E" % Q["ma"], "%s.Str" % Q["mb"], "*LS", "[2]int", "time.Duration", "LID", "byte", "uintptr"]
        opts += [t for t, c in tparams if c in ("comparable", "union")]
        return r.choice(opts)

    def rtype(self, depth=0, tparams=(), no_tparam=False):
        r = self.rng
        leaf = ["int", "string", "bool", "byte", "rune", "float64", "error", "any", "interface{}", "uint8", "complex128", "uintptr", "struct{}",
                "LS", "LE", "LStr", "LI", "LF", "LA", "LAF", "LCtx", "LID", "LAG", "LG[int]", "LG[%s.T]" % Q["mb"], "LG2[string, LS]", "LGI[string]",
                "%s.T" % Q["ma"], "%s.T" % Q["mb"], "%s.T" % Q["mc"], "%s.E" % Q["odd"], "%s.I" % Q["ma"], "%s.F" % Q["http"], "%s.A" % Q["mb"], "%s.Ctx" % Q["odd"],
                "%s.ID" % Q["ma"], "%s.Fn" % Q["mc"], "%s.G[int]" % Q["ma"], "%s.G[LS]" % Q["odd"], "%s.G2[string, %s.T]" % (Q["mb"], Q["ma"]), "%s.GI[LE]" % Q["mc"],
                "%s.T" % Q["sync"], "%s.T" % Q["fmt"], "%s.T" % Q["http"],
                "io.Reader", "io.Writer", "context.Context", "http.Header", "*http.Request", "time.Duration", "time.Time", "sort.Interface", "fmt.Stringer", "*os.File"]
        if self.allow_unexported:
            leaf += ["ls", "li", "*ls"]
        if not no_tparam:
            leaf += [t for t, _ in tparams] * 3
        if depth >= 3 or r.random() < 0.45:
            return r.choice(leaf)
        k = r.random()
        sub = lambda: self.rtype(depth + 1, tparams, no_tparam)
        if k < 0.15:
            return "*" + sub()
        if k < 0.32:
            return "[]" + sub()
        if k < 0.38:
            return "[%d]%s" % (r.choice([0, 1, 3]), sub())
        if k < 0.5:
            return "map[%s]%s" % (self.comparable(() if no_tparam else tparams), sub())
        if k < 0.6:
            d = r.choice(["chan ", "<-chan ", "chan<- "])
            inner = sub()
            if inner.startswith("<-chan"):
                inner = "(" + inner + ")"
            return d + inner
        if k < 0.75:
            return self.rfunc(depth + 1, tparams, no_tparam)
        if k < 0.85:
            fields = []
            for i in range(r.randint(0, 3)):
                fields.append("F%d %s%s" % (i, sub(), r.choice(["", "", ' `json:"f%d,omitempty"`' % i])))
            if r.random() < 0.3:
                fields.append(r.choice(["LS", "%s.T" % Q["ma"], "io.Reader"]))
            return "struct{ " + "; ".join(fields) + " }"
        if k < 0.92:
            ms = ["M%d(%s) %s" % (i, sub(), sub()) for i in range(r.randint(0, 2))]
            if r.random() < 0.4:
                ms.append(r.choice(["io.Reader", "LI", "%s.I" % Q["ma"], "fmt.Stringer"]))
            return "interface{ " + "; ".join(ms) + " }"
        return "unsafe.Pointer"

    def rfunc(self, depth, tparams, no_tparam=False):
        r = self.rng
        sub = lambda: self.rtype(depth + 1, tparams, no_tparam)
        ps = [sub() for _ in range(r.randint(0, 3))]
        if ps and r.random() < 0.25:
            ps[-1] = "..." + ps[-1]
        if ps and r.random() < 0.3:
            ps = ["p%d %s" % (i, p) for i, p in enumerate(ps)]
        rs = [sub() for _ in range(r.choice([0, 1, 1, 2]))]
        res = "" if not rs else (" " + rs[0] if len(rs) == 1 and not rs[0].startswith("func") else " (" + ", ".join(rs) + ")")
        return "func(" + ", ".join(ps) + ")" + res

    # ------------------------------------------------------------ methods
    def method(self, name, nparams=None, nresults=None, variadic=None, tparams=(), pnames=None, rnames=None, ptypes=None, rtypes=None):
        r = self.rng
        nparams = r.choice([0, 1, 1, 2, 2, 3, 5]) if nparams is None else nparams
        nresults = r.choice([0, 1, 1, 2, 3]) if nresults is None else nresults
        ptypes = ptypes if ptypes is not None else [self.rtype(0, tparams) for _ in range(nparams)]
        rtypes = rtypes if rtypes is not None else [self.rtype(0, tparams) for _ in range(nresults)]
        if rtypes and r.random() < 0.5 and "error" not in rtypes:
            rtypes[r.randrange(len(rtypes))] = "error"
        variadic = (bool(ptypes) and r.random() < 0.25) if variadic is None else variadic
        if variadic and ptypes:
            ptypes[-1] = "..." + ptypes[-1]
        style = r.choice(["named", "named", "unnamed", "blank", "mixed-blank"])
        if pnames is None:
            if style == "unnamed":
                pnames = [None] * len(ptypes)
            elif style == "blank":
                pnames = ["_"] * len(ptypes)
            else:
                pool = r.sample(NEUTRAL_NAMES, len(NEUTRAL_NAMES))
                pnames = [pool[i] if not (style == "mixed-blank" and r.random() < 0.4) else "_" for i in range(len(ptypes))]
        if rnames is None:
            if pnames and all(p is None for p in pnames) or r.random() < 0.6:
                rnames = [None] * len(rtypes)
            else:
                used = set(p for p in pnames if p)
                pool = [n for n in ["res", "err2", "o1", "o2", "o3", "o4"] if n not in used]
                rnames = [pool[i] for i in range(len(rtypes))]
        ps = ", ".join((("%s %s" % (n, t)) if n else t) for n, t in zip(pnames, ptypes))
        if rtypes:
            if any(rnames):
                rs = " (" + ", ".join("%s %s" % (n or "_", t) for n, t in zip(rnames, rtypes)) + ")"
            elif len(rtypes) == 1 and not rtypes[0].startswith("func"):
                rs = " " + rtypes[0]
            else:
                rs = " (" + ", ".join(rtypes) + ")"
        else:
            rs = ""
        return "%s(%s)%s" % (name, ps, rs)

    def iface(self, feature, body, name=None, tparams="", targs=None, exported=True, extra_features=(), extra_decls=()):
        self.n += 1
        nm = name or ("%s%d" % ("Iface" if exported else "iface", self.n))
        return {"name": nm, "tparams": tparams, "body": body if isinstance(body, list) else [body], "feature": feature, "targs": targs or [],
                "exported": nm[0].isupper(), "features": [feature] + list(extra_features), "extra_decls": list(extra_decls)}


def render_iface(i):
    text = "type %s%s interface {\n\t%s\n}\n" % (i["name"], i["tparams"], "\n\t".join(i["body"])) if i["body"] else "type %s%s interface{}\n" % (i["name"], i["tparams"])
    for e in i.get("extra_decls", []):
        text += "\n" + e.replace("{NAME}", i["name"]) + "\n"
    return text


def used_imports(text):
    imps = []
    for k, q in Q.items():
        if re.search(r"(?:(?<=\.\.\.)|(?<![\w.]))%s\." % re.escape(q), text):
            imps.append(k)
    return imps


def render_package(pkgname, ifaces, extra_decls=""):
    body = LOCAL_SUPPORT + "\n" + extra_decls + "\n" + "\n".join(render_iface(i) for i in ifaces)
    lines = ["package %s" % pkgname, "", "import ("]
    for k in sorted(set(used_imports(body)) | {"context", "ma"}):
        if k in FOREIGN:
            lines.append('\t%s "%s/ext/%s"' % (Q[k], MOD, FOREIGN[k][0]))
        else:
            path = STD[k]
            lines.append('\t%s"%s"' % ("" if Q[k] == path.rsplit("/", 1)[-1] else Q[k] + " ", path))
    lines.append(")")
    return "\n".join(lines) + "\n" + body


def support_files():
    files = {}
    for k, (d, name) in FOREIGN.items():
        files["ext/%s/t.go" % d] = foreign_source(name)
    return files


# ---------------------------------------------------------------- feature catalogue (focused interfaces: one hostile feature each)

def catalogue(g):
    """yield (feature id, iface dict). g: Gen."""
    out = []
    add = lambda f, body, **kw: out.append(g.iface(f, body, **kw))
    qa, qb, qc, qo = Q["ma"], Q["mb"], Q["mc"], Q["odd"]
    # ---- shapes
    shapes = {
        "basic": "int", "error": "error", "any": "any", "empty-iface": "interface{}", "local-struct": "LS", "local-defined": "LE", "local-iface": "LI",
        "local-functype": "LF", "foreign-struct": "%s.T" % qa, "foreign-same-name-2": "%s.T" % qb, "foreign-same-name-3": "%s.T" % qc,
        "foreign-name-ne-dir": "%s.T" % qo, "foreign-named-http": "%s.T" % Q["http"], "foreign-named-sync": "%s.T" % Q["sync"], "foreign-named-fmt": "%s.T" % Q["fmt"],
        "foreign-named-testing": "%s.T" % Q["testing"], "foreign-named-mock": "%s.T" % Q["mock"],
        "std-io": "io.Reader", "std-context": "context.Context", "std-http-header": "http.Header", "std-http-and-local-http": "map[*http.Request]%s.T" % Q["http"],
        "std-time": "time.Duration", "unsafe-pointer": "unsafe.Pointer", "unsafe-pointer-slice": "[]unsafe.Pointer", "unsafe-pointer-chan": "chan unsafe.Pointer",
        "unsafe-pointer-map": "map[string]unsafe.Pointer", "ptr": "*LS", "ptr-ptr": "**%s.T" % qa, "slice": "[]LS", "slice-slice": "[][]%s.E" % qa, "array": "[3]LS",
        "array0": "[0]int", "map": "map[string][]%s.T" % qb, "map-foreign-key": "map[%s.E]%s.T" % (qa, qb), "chan": "chan LS", "chan-recv": "<-chan %s.T" % qa,
        "chan-send": "chan<- LE", "chan-of-chan": "chan (<-chan int)", "func0": "func()", "func1": "func(int) string", "func-variadic": "func(a string, b ...%s.T) error" % qa,
        "func-multi": "func(a, b int) (x, y string)", "func-of-func": "func(func(LS) %s.T) func() error" % qa, "anon-struct": "struct{ A int; B %s.T }" % qa,
        "anon-struct-tags": "struct{ A int `json:\"a\"`; B string `yaml:\"b,omitempty\" json:\"-\"` }", "anon-struct-embedded": "struct{ LS; %s.T; X int }" % qb,
        "anon-struct-empty": "struct{}", "anon-iface": "interface{ M(x int) string }", "anon-iface-embed": "interface{ io.Reader; X() %s.T }" % qa,
        "generic-inst-local": "LG[int]", "generic-inst-foreign-arg": "LG[%s.T]" % qb, "generic-inst-foreign": "%s.G[LS]" % qa, "generic-inst-2": "%s.G2[string, %s.T]" % (qb, qc),
        "generic-inst-nested": "LG[LG[%s.G[int]]]" % qa, "generic-iface-inst": "LGI[%s.E]" % qa, "alias-local": "LA", "alias-to-foreign": "LAF", "alias-to-std": "LCtx",
        "alias-to-basic": "LID", "alias-generic-inst": "LAG", "foreign-alias": "%s.A" % qa, "foreign-alias-to-std": "%s.Ctx" % qb, "foreign-alias-to-basic": "%s.ID" % qc,
        "foreign-alias-to-func": "%s.Fn" % qo,
        "foreign-path-major-suffix": "map[%s.E]%s.T" % (Q["v2"], Q["yv3"]), "foreign-path-go-prefix-dotted": "func(%s.T) %s.T" % (Q["goxyz"], Q["dotted"]),
        "deep-nesting": "map[string][]*[2]chan func(%s.T) map[LE][]*LS" % qa,
    }
    if g.allow_unexported:
        shapes.update({"local-unexported-struct": "ls", "local-unexported-iface": "li", "ptr-unexported": "*ls"})
    for k, t in shapes.items():
        add("shape." + k, ["P(v %s)" % t, "R() %s" % t, "B(a %s, b int) (%s, error)" % (t, t)])
        if not t.startswith("func") or True:
            add("shape." + k + ".variadic", ["V(vs ...%s)" % t, "VR(n int, vs ...%s) %s" % (t, t if not t.startswith("chan<-") else "int")])
    # ---- method shapes
    add("method.no-params-no-results", "Do()")
    add("method.5-params-4-results", "Big(a int, b string, c LS, d %s.T, e []byte) (int, string, LS, error)" % qa)
    add("method.unnamed", "U(int, string, %s.T) (string, error)" % qa)
    add("method.blank", "Bl(_ int, _ string) (_ error)")
    add("method.mixed-blank", "Mb(a int, _ string, c bool) (n int, _ error)")
    add("method.grouped-names", "Gr(a, b int, c, d string) (x, y int, err error)")
    add("method.named-results", "Nr(k string) (v any, ok2 bool, err error)")
    add("method.error-first", "Ef() (error, int)")
    add("method.error-middle", "Em() (int, error, string)")
    add("method.two-errors", "Te() (error, error)")
    add("method.dup-types", "Dt(a, b, c string) (string, string)")
    add("method.variadic-any", ["Va(xs ...any)", "Va2(f string, xs ...any) error", "Va3(xs ...any) (int, error)"])
    add("method.variadic-iface", ["Vi(xs ...interface{})", "Vi2(f string, xs ...interface{}) (n int, err error)"])
    add("method.variadic-basic", ["Vb(xs ...int)", "Vb2(a string, xs ...int) error", "Vb3(xs ...string) (string, error)"])
    add("method.variadic-named", ["Vn(xs ...LS)", "Vn2(c context.Context, xs ...%s.T) ([]%s.T, error)" % (qa, qa)])
    add("method.variadic-slice-elem", ["Vs(xs ...[]byte)", "Vs2(n int, xs ...[][]int) error"])
    add("method.variadic-array-elem", "Vr(xs ...[2]int) error")
    add("method.variadic-func-elem", "Vf(fs ...func(int) error) error")
    add("method.variadic-ptr-elem", "Vp(ps ...*LS) (*LS, error)")
    add("method.variadic-map-elem", "Vm(ms ...map[string]int)")
    add("method.variadic-iface-elem", "Vie(ss ...fmt.Stringer) string")
    # the last fixed parameter has exactly the type of the variadic slice: with no variadic values it is the trailing recorded argument
    add("method.variadic-after-same-slice", ["J(base []string, more ...string)", "J2(a int, b []int, more ...int) error", "J3(b []any, more ...any) int"])
    # a result-less variadic method rendered after a sibling whose call expression would also compile in its body (the logger pair), and after one without parameters
    add("method.variadic-void-after-sibling", ["Debug(msg string)", "Debugf(msg string, args ...any)", "Flush()", "Log(xs ...int)"])
    add("method.variadic-2-results", "V2(a int, xs ...string) (int, error)")
    add("method.variadic-3-results", "V3(xs ...int) (a int, b string, err error)")
    add("method.embedded-local", "Base1")
    add("method.embedded-depth3", "Base3")
    add("method.embedded-foreign", "%s.I" % qa)
    add("method.embedded-std", ["io.ReadWriteCloser", "fmt.Stringer"])
    add("method.embedded-std-sort", "sort.Interface")
    add("method.embedded-generic-inst", "LGI[%s.T]" % qa)
    add("method.embedded-foreign-generic-inst", "%s.GI[LS]" % qb)
    add("method.embedded-diamond", ["Dia1", "Dia2"])
    add("method.embedded-plus-own", ["Base2", "Own(x LS) error"])
    add("method.embedded-alias", ["LCtx"] if False else ["context.Context"])
    add("method.empty-interface", [])
    add("method.many", ["M%d(a%d int) (int, error)" % (i, i) for i in range(32)])
    # more variables than any small pre-sized buffer: unnamed parameters of repeated types (renamed in the collision pass), and a parameter
    # named like a qualifier that a *later* parameter of the same method brings in
    add("method.ten-unnamed-params", ["M(int, int, string, string, int, string, bool, bool, int, string) (int, string, error)",
                                      "N(context.Context, string, string, int, int, []byte, []byte, error, error, float64, float64) error"])
    add("method.qualifier-param-before-late-import", ["R(http string, a int, b int, c string, d string, e bool, f bool, g []int, h []int, req *http.Request) (io int, r io.Reader)"])
    add("method.name-String-Error", ["String() string", "Error() string"])
    # method names that are also promoted methods of the embedded testify mock.Mock but not part of the mocks' documented API (they work today)
    add("method.name-like-promoted-mock-method", ["Test(v any) bool", "On(s string) error", "TestData() int"])
    add("method.name-like-promoted-mock-method-typed", ["Test(c context.Context, target string) error", "Maybe() bool"])
    add("method.name-lowercase-exported-mix", ["Exported()", "unexported(x int) string"] if g.allow_unexported else ["Exported()", "AlsoExported(x int) string"])
    # ---- identifiers
    for nm in PREDECLARED:
        add("ident.predeclared." + nm, ["P(%s int) int" % nm, "R(x int) (%s string)" % nm, "V(%s ...string) error" % nm])
    for nm in TEMPLATE_LOCALS:
        if nm in ("_", "T", "Call", "Mock", "Arguments", "Run", "Return"):
            add("ident.template-local." + nm, ["P(%s int, y string) (int, error)" % nm] if nm != "_" else ["P(_ int, _ string) (_ int, _ error)"])
        else:
            add("ident.template-local." + nm, ["P(%s int, y string) (int, error)" % nm, "R(x int) (%s string, err error)" % nm, "V(p bool, %s ...string) (bool, error)" % nm,
                                               "N(%s bool)" % nm])
            # own interfaces: a shadowing local of the same type leaves the mock compilable, only the values a callback receives tell
            # (names of the recorded identifier-capture family do not compile whatever the parameter type: nothing to add for them)
            if nm not in CAPTURED_LOCALS:
                add("ident.template-local-bool." + nm, ["B(%s bool, n int) (bool, error)" % nm, "B2(n int, %s bool) bool" % nm,
                                                        # every variable named in the source, predeclared types only (the file needs no import when it is processed)
                                                        "B3(n int, %s bool) (out bool, failure error)" % nm])
                add("ident.template-local-error." + nm, ["E(n int, %s error) error" % nm])
    for nm in QUALIFIER_NAMES:
        add("ident.qualifier." + nm, ["P(%s int, t %s.T) %s.T" % (nm, qa, qb), "Q(%s io.Reader, c context.Context) (http.Header, error)" % nm])
    add("ident.qualifier-own-type", ["P(model %s.T, http *http.Request, io io.Reader, context context.Context, time time.Duration) error" % qa])
    add("ident.type-name", ["P(string string, int int) (error error)", "Q(LS LS, T %s.T) LE" % qa, "R(LE int) (LS string)"])
    for tn, pre in (("Rune", "rune"), ("Byte", "byte"), ("String", "string"), ("Int", "int"), ("Bool", "bool"), ("Error", "error"), ("Any", "any"),
                    ("Uint8", "uint8"), ("Float64", "float64")):
        # unnamed parameters: the derived variable name is the de-capitalised type name, i.e. a predeclared identifier used elsewhere in the signature
        add("shape.local-named-like-predeclared." + tn, ["P(%s, []%s) map[%s]bool" % (tn, pre, pre) if pre not in ("any", "error", "bool") else "P(%s, []%s) []%s" % (tn, pre, pre),
                                                         "Q(*%s, ...%s) (%s, error)" % (tn, pre, pre), "R(_ %s, _ map[string]%s)" % (tn, pre)])
    # unnamed parameters of alias types named like a builtin that the generated bodies call, with a signature the call would also fit: a derived
    # parameter name `panic` compiles and silently takes the builtin's place
    add("shape.alias-func-named-like-builtin", ["OnPanic(Panic) int", "P2(Panic)", "P3(int, Panic) error", "Rec(Recover) any", "Pr(Print, ...any)"])
    add("shape.many-same-named-packages", ["G%s(xs ...%s.T) %s.E" % (k[1:], Q[k], Q[k]) for k in MANY_SAME])
    # declarations around the interface that must not disturb its mock
    add("decl.alias-of-own-generic-inst", ["Get(k string) (T, error)", "Put(v T)"], tparams="[T any]", targs=[["int"], ["string"]],
        extra_decls=["type {NAME}IntAlias = {NAME}[int]", "type {NAME}StrDefined {NAME}[string]"])
    add("decl.alias-of-iface", ["M(x int) error"], extra_decls=["type {NAME}Alias = {NAME}", "type {NAME}Defined {NAME}"])
    add("decl.shadowed-in-func-literal", ["M(x int) error"],
        extra_decls=["var {NAME}lit = func() int {\n\ttype {NAME} interface{ Other() }\n\tvar _ {NAME}\n\treturn 1\n}()",
                     "func {NAME}fn() {\n\ttype {NAME} struct{ X int }\n\tvar _ {NAME}\n}"])
    add("ident.type-name-composite.local", ["P(LS int, xs []LS) map[string]LS"])
    add("ident.type-name-composite.foreign", ["P(T int, xs []%s.T) *%s.T" % (qa, qa), "Q(E string, m map[%s.E]int)" % qa])
    add("ident.type-name-composite.predeclared", ["P(int string, xs []int) map[int]int", "Q(error int) []error"])
    for pair in CASE_PAIRS:
        add("ident.case-pair." + pair[0], ["P(%s) error" % ", ".join("%s int" % n for n in pair), "R() (%s)" % ", ".join("%s string" % n for n in pair)])
    for nm in NONASCII:
        add("ident.non-ascii." + nm, ["P(%s int) (%s2 string, err error)" % (nm, nm)])
    add("ident.non-ascii-type", ["P(v Größe) Größe", "Q(vs ...Größe) []Größe"])
    # unnamed parameters: the variable name is derived from the type name by lower-casing its first letter, which may be a multi-byte one
    add("ident.non-ascii-type-unnamed", ["P(Ärger, Größe) Ünï", "Q(*Ünï, []Ärger, ...Ärger) (Ärger, error)", "R(_ Ünï, _ map[string]Ärger)"])
    add("ident.long", ["P(%s int) (%s string)" % ("p" + "x" * 120, "r" + "y" * 120)])
    add("ident.iface-name-underscore", "M(x int) error", name="Under_score_%d" % g.n)
    add("ident.iface-name-non-ascii", "M(x int) error", name="Größe%dIface" % g.n)
    add("ident.iface-name-initialism", "M(x int) error", name="HTTPClient%d" % g.n)
    if g.allow_unexported:
        add("ident.iface-unexported", ["M(x ls) (li, error)"], name="lowerIface%d" % g.n)
    # ---- generics
    gens = {
        "any": ("[T any]", ["Get(k string) (T, bool)", "Put(k string, v T) error", "All() []T", "Fn(f func(T) T) map[string]T", "Ch() <-chan T", "Ptr(p *T) **T"], [["int"], ["%s.T" % "{ma}"]]),
        "comparable": ("[K comparable]", ["Has(k K) bool", "Keys() map[K]struct{}", "V(ks ...K) []K"], [["string"], ["int"]]),
        "two": ("[K comparable, V any]", ["Get(k K) (V, error)", "Set(k K, v V)", "Map() map[K]V", "G() LG2[K, V]"], [["string", "int"], ["int", "%s.T" % "{mb}"]]),
        "union": ("[N ~int | ~string]", ["Add(a, b N) N", "Sum(xs ...N) N"], [["int"], ["string"]]),
        "union-basic": ("[N int | int64 | float64]", ["Add(a, b N) N"], [["int64"], ["float64"]]),
        "local-constraint": ("[N LNum]", ["Add(a, b N) N", "Of(x N) LG[N]"], [["int"], ["float64"]]),
        "foreign-constraint": ("[N %s.Num]" % qa, ["Add(a, b N) N"], [["int"], ["float64"]]),
        "iface-constraint": ("[S fmt.Stringer]", ["Show(s S) string", "All(ss ...S) []string"], [["%s.Str" % "{ma}"]]),
        "local-iface-constraint": ("[X LI]", ["Use(x X) string"], []),
        "three": ("[A any, B comparable, C any]", ["F(a A, b B) (C, error)", "G() func(A) map[B]C"], [["int", "string", "bool"]]),
        "embedded-generic": ("[T any]", ["LGI[T]", "Extra(x T) []T"], [["int"], ["string"]]),
        "named-T-shadows": ("[LS any]", ["Get() LS"], [["int"]]),
        "tparam-named-like-local": ("[mock any, ret comparable]", ["Get(k ret) mock"], [["int", "string"]]),
        "tparam-lowercase": ("[t any, k comparable]", ["Get(key k) (t, error)"], [["int", "string"]]),
        "tparam-long": ("[VeryLongTypeParameterName any]", ["Get() VeryLongTypeParameterName"], [["int"]]),
        "tparam-non-ascii": ("[Ü any]", ["Get() Ü"], [["int"]]),
        "tparam-unused": ("[T any]", ["Plain(x int) error"], [["int"]]),
        "variadic-tparam": ("[T any]", ["V(xs ...T) (T, error)", "W(a string, xs ...T)"], [["int"], ["string"]]),
        "constraint-with-method": ("[T interface{ ~int; String() string }]", ["Use(x T) string"], []),
        "self-ref-constraint": ("[T interface{ Less(T) bool }]", ["Min(a, b T) T"], []),
        # approximation terms over composite types that mention named types of other packages (the operand of ~ is an unnamed type, its parts are not)
        "tilde-composite-foreign": ("[S ~[]%s.T, M ~map[string]%s.E | ~map[string]*%s.T]" % (qa, qb, qa), ["Use(s S) M", "All(ss ...S) []M"], [["[]%s.T" % "{ma}", "map[string]%s.E" % "{mb}"]]),
        "tilde-composite-local": ("[S ~[]LS | ~[2]LS]", ["Use(s S) LS"], []),   # (no instantiation: the drivers cannot name a local type from another package)
        "generic-of-generic": ("[T any]", ["Wrap(x LG[T]) LG[LG[T]]", "Pair(a %s.G2[string, T]) []T" % qa], [["int"]]),
    }
    for k, (tp, body, targs) in gens.items():
        add("generic." + k, body, tparams=tp, targs=targs)
    return out


def random_iface(g, i):
    """an interface made of random methods (mixed features)"""
    r = g.rng
    tparams, tp = "", ()
    targs = []
    if r.random() < 0.25:
        # (no `comparable` here: the matryer ensure line cannot instantiate it - known finding, exercised by the catalogue's generic.* entries)
        choice = r.choice([("[T any]", (("T", "any"),), [["int"], ["string"]]), ("[K ~int | ~string, V any]", (("K", "union"), ("V", "any")), [["string", "int"]]),
                           ("[N ~int | ~string]", (("N", "union"),), [["int"]])])
        tparams, tp, targs = choice
    body = []
    names = set()
    for m in range(r.randint(1, 5)):
        nm = r.choice(["Get", "Put", "Do", "Run2", "List", "Find", "Close", "Open", "Each", "Apply"]) + str(m)
        body.append(g.method(nm, tparams=tp))
    if r.random() < 0.3:
        body.append(r.choice(["Base1", "Base2", "io.Closer", "%s.I" % Q["ma"], "fmt.Stringer"]))
    return g.iface("random.mixed", body, tparams=tparams, targs=targs)
