"""C12 — template-data is validated against the template's JSON schema at every level.

Plane P1: the real binary is run with built-in and custom (file://, http://, https://)
templates, generated schemas and template-data placed at one level or split over levels; a mini
JSON-Schema validator applied to the model's merged maps (file level and every interface)
predicts acceptance; the monitor compares exit status and whether the output file was written,
and reads the loopback server's request log to see which schema was actually retrieved.
"""
import json
import os
import random
import subprocess
import threading

from . import core, cfgmodel, probe
from .core import Verdict

MOD = "example.com/m"

BUILTIN_SCHEMA = {
    "testify": {"type": "object", "additionalProperties": False,
                "properties": {"boilerplate-file": {"type": "string"}, "mock-build-tags": {"type": "string"}, "unroll-variadic": {"type": "boolean"}}},
    "matryer": {"type": "object", "additionalProperties": False,
                "properties": {"boilerplate-file": {"type": "string"}, "mock-build-tags": {"type": "string"}, "skip-ensure": {"type": "boolean"},
                               "stub-impl": {"type": "boolean"}, "with-resets": {"type": "boolean"}}},
}


def validate(schema, data):
    """Mini JSON-Schema: type(object/string/boolean/integer), required, properties, additionalProperties(bool), enum."""
    def typ_ok(t, v):
        if t == "object":
            return isinstance(v, dict)
        if t == "string":
            return isinstance(v, str)
        if t == "boolean":
            return isinstance(v, bool)
        if t == "integer":
            return isinstance(v, int) and not isinstance(v, bool)
        return True
    if "type" in schema and not typ_ok(schema["type"], data):
        return False
    if "enum" in schema and data not in schema["enum"]:
        return False
    if isinstance(data, dict):
        for k in schema.get("required", []):
            if k not in data:
                return False
        props = schema.get("properties", {})
        for k, v in data.items():
            if k in props:
                if not validate(props[k], v):
                    return False
            elif schema.get("additionalProperties", True) is False:
                return False
    return True


class Server:
    def __init__(self, ctx):
        self.dir = ctx.newdir("srv")
        self.out = ctx.newdir("srvout")
        self.p = subprocess.Popen([core.helper_bin("fileserve"), self.dir, self.out], stdin=subprocess.PIPE, stdout=subprocess.PIPE, text=True)
        info = json.loads(self.p.stdout.readline())
        self.http, self.https, self.ca = info["http"], info["https"], info["ca"]
        self.reqs = []
        self.lock = threading.Lock()
        threading.Thread(target=self._pump, daemon=True).start()

    def _pump(self):
        for line in self.p.stdout:
            with self.lock:
                self.reqs.append(line.strip())

    def requests_for(self, prefix):
        with self.lock:
            return [r for r in self.reqs if (" /%s/" % prefix) in r]

    def put(self, rel, content):
        p = os.path.join(self.dir, rel)
        os.makedirs(os.path.dirname(p), exist_ok=True)
        with open(p, "w") as f:
            f.write(content)

    def close(self):
        try:
            self.p.stdin.close()
            self.p.terminate()
        except Exception:
            pass


def gen_schema(rng):
    props = {}
    pool = {"s": "string", "b": "boolean", "n": "integer", "o": "object", "t": "string"}
    for k in rng.sample(sorted(pool), rng.randint(1, 4)):
        props[k] = {"type": pool[k]}
    sch = {"type": "object", "properties": props}
    req = [k for k in props if rng.random() < 0.4]
    if req:
        sch["required"] = req
    if rng.random() < 0.5:
        sch["additionalProperties"] = False
    return sch


def value_for(t, rng, good=True):
    vals = {"string": "str", "boolean": True, "integer": 7, "object": {"x": 1}}
    if good:
        return vals[t]
    return rng.choice([v for k, v in vals.items() if k != t])


def gen_data(rng, schema):
    """data valid by construction, then possibly broken: returns (levels dict, description)"""
    props = schema.get("properties", {})
    full = {k: value_for(v["type"], rng) for k, v in props.items() if k in schema.get("required", []) or rng.random() < 0.6}
    if schema.get("additionalProperties", True) is not False and rng.random() < 0.4:
        full["extra"] = "e"
    return full


LEVELS = ["root", "pkg", "ifaceA", "cfgA0", "cfgA1", "ifaceB"]   # cfgA0 / cfgA1: the two configs entries of interface A (one output file)


def gen_case(rng, i):
    tkind = rng.choice(["testify", "matryer", "file-rel", "file-abs", "http", "https", "file-rel", "http"])
    case = {"kind": "single", "i": i, "tkind": tkind, "seed": rng.randrange(1 << 30)}
    if tkind in ("testify", "matryer"):
        sch = BUILTIN_SCHEMA[tkind]
        case["schema_state"] = "builtin"
        # the built-in schema is part of the binary: require-template-schema-exists (which only says what to do when a schema cannot be found) never switches it off
        case["require"] = rng.choice([None, None, False, False, True])
        case["require_level"] = rng.choice(["root", "pkg", "iface"])
    else:
        sch = gen_schema(rng)
        case["schema_state"] = rng.choice(["default", "default", "default", "custom", "custom", "absent", "broken"])
        case["require"] = rng.choice([None, True, False]) if case["schema_state"] in ("absent", "broken") else rng.choice([None, None, True, False])
    case["schema"] = sch
    case["schema_symlink"] = tkind.startswith("file") and rng.random() < 0.35
    # data: start valid, split over levels, then break at one place (or not)
    base = gen_data(rng, sch) if tkind not in ("testify", "matryer") else {k: value_for(v["type"], rng) for k, v in sch["properties"].items() if rng.random() < 0.4 and k != "boilerplate-file"}
    levels = {l: {} for l in LEVELS}
    for k, v in base.items():
        where = rng.choice(["root", "pkg", "iface"])
        if where == "iface":
            levels["ifaceA"][k] = v
            levels["ifaceB"][k] = v
        else:
            levels[where][k] = v
    brk = rng.choice(["none", "none", "root", "pkg", "ifaceA", "cfgA0", "cfgA1", "ifaceB"])
    if brk != "none":
        how = rng.choice(["unknown-key", "wrong-type", "drop-required", "lookalike-type"])
        if how == "lookalike-type":
            # a value of the wrong JSON type that prints exactly like the conforming one ("true" for true, "7" for 7):
            # the merged map then differs from a sibling's conforming map only in a value's type
            cands = [k for k, v in base.items() if isinstance(v, (bool, int))]
            if cands:
                k = rng.choice(cands)
                v = base[k]
                levels[brk][k] = ("true" if v else "false") if isinstance(v, bool) else str(v)
            else:
                how = "unknown-key"
        if how == "unknown-key":
            levels[brk]["zz-unknown"] = 1
        elif how == "wrong-type" and sch.get("properties"):
            k = rng.choice(sorted(sch["properties"]))
            levels[brk][k] = value_for(sch["properties"][k]["type"], rng, good=False)
        elif how == "drop-required" and sch.get("required"):
            k = rng.choice(sch["required"])
            for l in levels.values():
                l.pop(k, None)
        case["broke"] = [brk, how]
    case["levels"] = levels
    return case


def gen_shared_case(rng, i):
    """two packages share one custom template but use different template-schema values in one run"""
    return {"kind": "shared", "i": i, "tkind": rng.choice(["file-rel", "http", "https"]), "seed": rng.randrange(1 << 30),
            "a_ok": rng.random() < 0.7, "b_ok": rng.random() < 0.7, "level": rng.choice(["pkg", "iface"])}


SRC = {"pa/a.go": "package pa\n\ntype A interface{ M(xs ...int) error }\n\ntype B interface{ N() }\n", "pb/b.go": "package pb\n\ntype C interface{ O() }\n"}


def template_ref(case, server, root, name):
    tk = case["tkind"]
    if tk == "file-rel":
        return "file://tmpl/%s" % name, os.path.join(root, "tmpl")
    if tk == "file-abs":
        return "file://%s/tmpl/%s" % (root, name), os.path.join(root, "tmpl")
    uid = "u%d_%d" % (case["i"], case["seed"] % 100000)
    scheme = tk
    port = server.http if tk == "http" else server.https
    return "%s://127.0.0.1:%d/%s/%s" % (scheme, port, uid, name), os.path.join(server.dir, uid)


def eval_single(ctx, case):
    server = ctx.server
    files = dict(SRC)
    root = core.scratch_module(ctx, files)
    tk = case["tkind"]
    lv = case["levels"]
    cfg = {"formatter": "noop", "dir": "out/{{.SrcPackageName}}", "filename": "m.go", "pkgname": "mocks"}
    custom = tk not in ("testify", "matryer")
    require = True
    uid = None
    if custom:
        tref, tdir = template_ref(case, server, root, "probe.templ")
        os.makedirs(tdir, exist_ok=True)
        with open(os.path.join(tdir, "probe.templ"), "w") as f:
            f.write(probe.probe_template("A"))
        cfg["template"] = tref
        st = case["schema_state"]
        sch_text = json.dumps(case["schema"])
        def put_schema(name):
            # for file:// templates the schema may be a symbolic link to a file kept elsewhere (one schema shared by several templates)
            if case.get("schema_symlink") and tk.startswith("file"):
                real = os.path.join(root, "shared-schemas", name)
                os.makedirs(os.path.dirname(real), exist_ok=True)
                open(real, "w").write(sch_text)
                os.symlink(real, os.path.join(tdir, name))
            else:
                open(os.path.join(tdir, name), "w").write(sch_text)
        if st == "default":
            put_schema("probe.templ.schema.json")
        elif st == "custom":
            put_schema("other-place.json")
            # a decoy at the default location that accepts nothing useful: if it were used, conforming data would fail
            open(os.path.join(tdir, "probe.templ.schema.json"), "w").write(json.dumps({"type": "object", "required": ["decoy-key-never-set"]}))
            cfg["template-schema"] = tref.rsplit("/", 1)[0] + "/other-place.json"
        elif st == "broken":
            open(os.path.join(tdir, "probe.templ.schema.json"), "w").write("{ this is not json")
        if case.get("require") is not None:
            cfg["require-template-schema-exists"] = case["require"]
            require = case["require"]
    else:
        cfg["template"] = tk
    if lv["root"]:
        cfg["template-data"] = lv["root"]
    pa = {"config": {}, "interfaces": {"A": {"config": {}, "configs": [{"structname": "A0"}, {"structname": "A1"}]}, "B": {"config": {}}}}
    if not custom and case.get("require") is not None:
        rl = case.get("require_level", "root")
        if rl == "root":
            cfg["require-template-schema-exists"] = case["require"]
        elif rl == "pkg":
            pa["config"]["require-template-schema-exists"] = case["require"]
        else:
            pa["interfaces"]["A"]["config"]["require-template-schema-exists"] = case["require"]
            pa["interfaces"]["B"]["config"]["require-template-schema-exists"] = case["require"]
    if lv["pkg"]:
        pa["config"]["template-data"] = lv["pkg"]
    if lv["ifaceA"]:
        pa["interfaces"]["A"]["config"]["template-data"] = lv["ifaceA"]
    if lv.get("cfgA0"):
        pa["interfaces"]["A"]["configs"][0]["template-data"] = lv["cfgA0"]
    if lv["cfgA1"]:
        pa["interfaces"]["A"]["configs"][1]["template-data"] = lv["cfgA1"]
    if lv["ifaceB"]:
        pa["interfaces"]["B"]["config"]["template-data"] = lv["ifaceB"]
    cfg["packages"] = {MOD + "/pa": pa}
    with open(os.path.join(root, ".mockery.yml"), "w") as f:
        f.write(json.dumps(cfg))
    # model
    file_td = cfgmodel.resolve(cfgmodel.levels_for(cfg, MOD + "/pa"))["template-data"]
    mock_tds = [cfgmodel.resolve(cfgmodel.levels_for(cfg, MOD + "/pa", "A", 0))["template-data"],
                cfgmodel.resolve(cfgmodel.levels_for(cfg, MOD + "/pa", "A", 1))["template-data"],
                cfgmodel.resolve(cfgmodel.levels_for(cfg, MOD + "/pa", "B", None))["template-data"]]
    st = case["schema_state"]
    if custom and not require:
        accept, why = True, "no validation (require-template-schema-exists false)"
    elif custom and st in ("absent", "broken"):
        accept, why = False, "schema not retrievable/parseable and required"
    else:
        bad = [n for n, d in (("file", file_td), ("A0", mock_tds[0]), ("A1", mock_tds[1]), ("B", mock_tds[2])) if not validate(case["schema"], d)]
        accept, why = (not bad), ("all levels conform" if not bad else "violates at %s" % bad)
    env = {"SSL_CERT_FILE": server.ca} if tk == "https" else {}
    r = core.run_mockery(ctx, root, [], env_extra=env, timeout=300, block_window=20)
    if r.blocked:
        return Verdict.violated("the run neither failed nor finished: every thread of the process slept without consuming CPU for 20 consecutive samples (blocked on a channel, lock or pipe)",
                                dict(r.brief(), config=cfg), ["blocked"])
    if r.timed_out:
        return Verdict.inconclusive("watchdog")
    outp = os.path.join(root, "out/pa/m.go")
    written = os.path.exists(outp)
    tags = ["template=" + tk, "schema=" + st + ("-via-symlink" if case.get("schema_symlink") and tk.startswith("file") else ""), "model=" + ("accept" if accept else "reject")] + (["broke=%s/%s" % tuple(case["broke"])] if case.get("broke") else [])
    obs = {"exit": r.exit, "written": written, "model": why, "config": cfg, "schema": case["schema"]}
    if r.panicked:
        return Verdict.violated("mockery crashed", dict(obs, **r.brief()), tags)
    if accept and (r.exit != 0 or not written):
        return Verdict.violated("conforming template-data rejected (%s): exit %s, file written %s" % (why, r.exit, written), dict(obs, **r.brief()), tags)
    if not accept and (r.exit == 0 or written):
        return Verdict.violated("template-data that must be rejected (%s) was accepted: exit %s, file written %s" % (why, r.exit, written), dict(obs, **r.brief()), tags)
    if custom and tk in ("http", "https"):
        uidp = cfg["template"].split("/")[3]
        want_schema = "other-place.json" if st == "custom" else "probe.templ.schema.json"
        import time
        for _ in range(100):  # the request log is pumped by a reader thread: give it a moment (bounded)
            reqs = server.requests_for(uidp)
            if not require or any(want_schema in q for q in reqs):
                break
            time.sleep(0.05)
        obs["requests"] = reqs
        if require and not any(want_schema in q for q in reqs):
            return Verdict.violated("schema %s was never requested from the server although validation is required: %s" % (want_schema, reqs), obs, tags)
        if not require and any(".json" in q for q in reqs) and False:
            pass
    return Verdict.held({"exit": r.exit, "written": written, "model": why}, tags=tags)


def eval_shared(ctx, case):
    server = ctx.server
    root = core.scratch_module(ctx, dict(SRC))
    tref, tdir = template_ref(case, server, root, "probe.templ")
    os.makedirs(tdir, exist_ok=True)
    open(os.path.join(tdir, "probe.templ"), "w").write(probe.probe_template("A"))
    open(os.path.join(tdir, "sa.json"), "w").write(json.dumps({"type": "object", "required": ["ka"], "properties": {"ka": {"type": "string"}}}))
    open(os.path.join(tdir, "sb.json"), "w").write(json.dumps({"type": "object", "required": ["kb"], "properties": {"kb": {"type": "boolean"}}}))
    base = tref.rsplit("/", 1)[0]
    cfg = {"formatter": "noop", "dir": "out/{{.SrcPackageName}}", "filename": "m.go", "pkgname": "mocks", "template": tref, "all": True}
    tda = {"ka": "x"} if case["a_ok"] else {"kb": True}
    tdb = {"kb": True} if case["b_ok"] else {"ka": "x"}
    if case["level"] == "pkg":
        cfg["packages"] = {MOD + "/pa": {"config": {"template-schema": base + "/sa.json", "template-data": tda}},
                           MOD + "/pb": {"config": {"template-schema": base + "/sb.json", "template-data": tdb}}}
    else:
        cfg["all"] = False
        cfg["packages"] = {MOD + "/pa": {"interfaces": {"A": {"config": {"template-schema": base + "/sa.json"}}}, "config": {"template-data": tda}},
                           MOD + "/pb": {"interfaces": {"C": {"config": {"template-schema": base + "/sb.json"}}}, "config": {"template-data": tdb}}}
    open(os.path.join(root, ".mockery.yml"), "w").write(json.dumps(cfg))
    env = {"SSL_CERT_FILE": server.ca} if case["tkind"] == "https" else {}
    r = core.run_mockery(ctx, root, [], env_extra=env, timeout=300, block_window=20)
    if r.blocked:
        return Verdict.violated("the run neither failed nor finished: every thread of the process slept without consuming CPU for 20 consecutive samples (blocked on a channel, lock or pipe)",
                                dict(r.brief(), config=cfg), ["blocked"])
    if r.timed_out:
        return Verdict.inconclusive("watchdog")
    wa, wb = os.path.exists(os.path.join(root, "out/pa/m.go")), os.path.exists(os.path.join(root, "out/pb/m.go"))
    ok = case["a_ok"] and case["b_ok"]
    tags = ["shared-template", "template=" + case["tkind"], "model=" + ("accept" if ok else "reject")]
    obs = {"exit": r.exit, "written_a": wa, "written_b": wb, "config": cfg}
    if r.panicked:
        return Verdict.violated("mockery crashed", dict(obs, **r.brief()), tags)
    if ok and (r.exit != 0 or not (wa and wb)):
        return Verdict.violated("two packages share a template with different template-schema values; both data sets conform to their own schema, yet exit %s (a=%s b=%s)" %
                                (r.exit, wa, wb), dict(obs, **r.brief()), tags)
    if not ok:
        if r.exit == 0:
            return Verdict.violated("data violating its package's own schema was accepted (a_ok=%s b_ok=%s)" % (case["a_ok"], case["b_ok"]), dict(obs, **r.brief()), tags)
        if (wa and not case["a_ok"]) or (wb and not case["b_ok"]):
            return Verdict.violated("a file whose data violates its schema was written (a=%s b=%s)" % (wa, wb), obs, tags)
    return Verdict.held({"exit": r.exit, "written": [wa, wb]}, tags=tags)


def gen_require_case(rng, i):
    return {"kind": "require", "i": i, "tkind": rng.choice(["file-rel", "http", "file-abs"]), "seed": rng.randrange(1 << 30),
            "b_conforms": rng.random() < 0.5, "schema_present": rng.random() < 0.7, "nfiles": rng.randint(2, 5)}


def eval_require(ctx, case):
    """several output files share one custom template and one template-schema but differ in require-template-schema-exists:
    the files that do not require the schema carry violating data (no validation => written), the one that requires it decides the run"""
    server = ctx.server
    n = case["nfiles"]
    src = "package pa\n\n" + "".join("type R%d interface{ M%d() }\n\n" % (k, k) for k in range(n))
    root = core.scratch_module(ctx, {"pa/a.go": src})
    tref, tdir = template_ref(case, server, root, "probe.templ")
    os.makedirs(tdir, exist_ok=True)
    open(os.path.join(tdir, "probe.templ"), "w").write(probe.probe_template("A"))
    if case["schema_present"]:
        open(os.path.join(tdir, "probe.templ.schema.json"), "w").write(json.dumps({"type": "object", "properties": {"other": {"type": "string"}}}))   # (file-level data is empty and passes)
    strict = case["seed"] % n
    ifs = {}
    for k in range(n):
        if k == strict:
            ifs["R%d" % k] = {"config": {"require-template-schema-exists": True, "template-data": {"other": "text"} if case["b_conforms"] else {"other": 1}}}
        else:
            ifs["R%d" % k] = {"config": {"require-template-schema-exists": False, "template-data": {"other": k}}}
    cfg = {"formatter": "noop", "dir": "out", "filename": "m_{{.InterfaceName}}.go", "pkgname": "mocks", "template": tref,
           "packages": {MOD + "/pa": {"interfaces": ifs}}}
    open(os.path.join(root, ".mockery.yml"), "w").write(json.dumps(cfg))
    r = core.run_mockery(ctx, root, [], timeout=300, block_window=20)
    if r.blocked:
        return Verdict.violated("the run neither failed nor finished: every thread of the process slept without consuming CPU for 20 consecutive samples (blocked on a channel, lock or pipe)",
                                dict(r.brief(), config=cfg), ["blocked"])
    if r.timed_out:
        return Verdict.inconclusive("watchdog")
    accept = case["schema_present"] and case["b_conforms"]
    written = sorted(os.listdir(os.path.join(root, "out"))) if os.path.isdir(os.path.join(root, "out")) else []
    tags = ["shared-template-different-require", "template=" + case["tkind"], "model=" + ("accept" if accept else "reject")]
    obs = {"exit": r.exit, "written": written, "strict_file": "m_R%d.go" % strict, "config": cfg}
    if r.panicked:
        return Verdict.violated("mockery crashed", dict(obs, **r.brief()), tags)
    if accept and (r.exit != 0 or len(written) != n):
        return Verdict.violated("files that do not require the schema carry unvalidated data and the one that requires it conforms, yet exit %s, written %s" % (r.exit, written),
                                dict(obs, **r.brief()), tags)
    if not accept and (r.exit == 0 or ("m_R%d.go" % strict) in written):
        return Verdict.violated("the file that requires the schema (%s) must be rejected (%s) but exit %s, written %s" % (
            "m_R%d.go" % strict, "schema missing" if not case["schema_present"] else "data violates it", r.exit, written), dict(obs, **r.brief()), tags)
    return Verdict.held({"exit": r.exit, "written": written}, tags=tags)


CANDIDATE_BUILTIN_NAMES = ["testify", "matryer", "moq", "mockery", "mock", "mocks", "stub", "fake", "gomock", "counterfeiter", "expecter", "Testify", "MATRYER",
                           "testify.templ", "mockery-testify", "v2"]


def eval_builtin_name(ctx, case):
    """Whatever name the tool accepts as a built-in template (a bare word, no scheme) has a built-in schema: data that no built-in schema allows
    (an undeclared key; both known schemas close their property list) must be rejected under that name too. Names the tool rejects are not judged."""
    name = case["name"]
    src = {"p/p.go": "package p\n\ntype Alpha interface{ A(x int) error }\n\ntype Beta interface{ B() string }\n"}

    def run_with(td_root, td_iface):
        cfg = {"template": name, "dir": "out", "pkgname": "mocks", "filename": "m_{{.InterfaceName}}.go", "formatter": "noop",
               "packages": {MOD + "/p": {"interfaces": {"Alpha": {"config": {"template-data": td_iface}} if td_iface else {}, "Beta": {}}}}}
        if td_root:
            cfg["template-data"] = td_root
        root = core.scratch_module(ctx, dict(src, **{".mockery.yml": json.dumps(cfg)}))
        r = core.run_mockery(ctx, root, [], timeout=300, block_window=20)
        return root, r
    root, r0 = run_with(None, None)
    if r0.timed_out:
        return Verdict.inconclusive("watchdog")
    if r0.panicked:
        return Verdict.violated("template name %r: mockery crashed" % name, r0.brief())
    if r0.exit != 0:
        return Verdict.held({"name": name, "accepted": False}, nontrivial=False, tags=["builtin-name-rejected"])
    for where, (tr, ti) in (("file level", ({"zz-undeclared-key": True}, None)), ("interface level", (None, {"zz-undeclared-key": True}))):
        root, r = run_with(tr, ti)
        if r.timed_out:
            return Verdict.inconclusive("watchdog")
        written = sorted(f for f in os.listdir(os.path.join(root, "out"))) if os.path.isdir(os.path.join(root, "out")) else []
        if r.exit == 0 or "m_Alpha.go" in written:
            return Verdict.violated("template name %r is accepted as a built-in template, but template-data with an undeclared key at %s is not rejected "
                                    "(exit %s, written %s): no schema is applied under this name" % (name, where, r.exit, written), dict(r.brief(), name=name))
    return Verdict.held({"name": name, "accepted": True}, tags=["builtin-name-accepted"])


def eval_recparent(ctx, case):
    """template-data made in the config of a recursive package is part of the data of the mocks of its sub-packages, listed or discovered (the same
    inheritance C04, C13 and C17 observe): it is validated with them - a violating value there fails the run, a required key supplied there satisfies."""
    schema = {"type": "object", "properties": {"tool": {"type": "string"}, "level": {"type": "integer"}}, "required": ["tool"], "additionalProperties": False}
    files = {"tmpl/t.templ": probe.probe_template("R"), "tmpl/t.templ.schema.json": json.dumps(schema)}
    for d, nm in (("a", "Alpha"), ("a/b", "Beta"), ("a/c", "Gamma")):
        files[d + "/s.go"] = "package %s\n\ntype %s interface{ M(x int) error }\n" % (d.rsplit("/", 1)[-1], nm)
    ptd = {"tool": "x", "level": 3}
    if case["variant"] == "wrong-type":
        ptd["level"] = "three"
    elif case["variant"] == "undeclared":
        ptd["zz"] = 1
    sub = {"interfaces": {"Beta": None}} if case["listed"] == "by-name" else {"config": {"all": True}}
    cfg = {"template": "file://tmpl/t.templ", "formatter": "noop", "dir": "{{.InterfaceDir}}", "filename": "m_gen.go", "pkgname": "{{.SrcPackageName}}",
           "packages": {MOD + "/a": {"config": {"recursive": True, "all": True, "template-data": ptd}}, MOD + "/a/b": sub}}
    files[".mockery.yml"] = json.dumps(cfg)
    root = core.scratch_module(ctx, files)
    r = core.run_mockery(ctx, root, [], timeout=300, block_window=20)
    if r.timed_out:
        return Verdict.inconclusive("watchdog")
    written = [d for d in ("a", "a/b", "a/c") if os.path.exists(os.path.join(root, d, "m_gen.go"))]
    obs = dict(r.brief(), variant=case["variant"], listed=case["listed"], written=written)
    tags = ["recparent", case["variant"], case["listed"]]
    if r.panicked:
        return Verdict.violated("mockery crashed", obs, tags)
    if case["variant"] == "conforming":
        if r.exit != 0 or len(written) != 3:
            return Verdict.violated("the required key is supplied by the recursive package's template-data, which reaches every sub-package: the run must succeed, "
                                    "but exit %s, files written for %s" % (r.exit, written), obs, tags)
        return Verdict.held(obs, tags=tags)
    if r.exit == 0 or "a/b" in written:
        return Verdict.violated("template-data of the recursive package violates the schema (%s) and reaches the listed sub-package a/b, but exit %s and files written for %s"
                                % (case["variant"], r.exit, written), obs, tags)
    return Verdict.held(obs, tags=tags)


def eval_case(ctx, case):
    if case["kind"] == "recparent":
        return eval_recparent(ctx, case)
    if case["kind"] == "builtin-name":
        return eval_builtin_name(ctx, case)
    if case["kind"] == "require":
        return eval_require(ctx, case)
    return eval_shared(ctx, case) if case["kind"] == "shared" else eval_single(ctx, case)


def body(ctx, replay=None):
    core.build_mockery(ctx)
    ctx.server = Server(ctx)
    ctx.rule = ("single cases: template {testify, matryer, file:// relative/absolute, http://, https:// on loopback with a throw-away CA} x schema {built-in, "
                "default location, custom template-schema with a decoy at the default location, absent, syntactically broken} x require-template-schema-exists "
                "{unset,true,false} x generated schemas (typed properties, required, additionalProperties) x template-data valid by construction, split over "
                "root/package/interface config/configs entry, then broken at one level (unknown key, wrong type, dropped required key); shared cases: two packages, "
                "one template, two template-schema values in one run. non-trivial = every case; distinct = case hash")
    ctx.assumptions = ["mini validator covers type/required/properties/additionalProperties/enum only, and only such schemas are generated",
                       "when the run is predicted to fail only the failing file's absence and the exit status are asserted"]
    try:
        if replay is not None:
            cases = [replay]
        else:
            n, m = (90, 16) if ctx.tier == "quick" else (900, 120)
            cases = [gen_case(ctx.rng, i) for i in range(n)] + [gen_shared_case(ctx.rng, 10000 + i) for i in range(m)]
            cases += [gen_require_case(ctx.rng, 20000 + i) for i in range(2 * m)]
            # fixed witnesses: file:// templates whose schema (default and custom location) is a symbolic link, conforming and violating data
            for j2, (tkd, stt, brk) in enumerate((a, b, c) for a in ("file-rel", "file-abs") for b in ("default", "custom") for c in ("none", "ifaceB")):
                sch = {"type": "object", "properties": {"level": {"type": "integer"}, "name": {"type": "string"}}, "required": ["name"], "additionalProperties": False}
                lv = {l: {} for l in LEVELS}
                lv["root"] = {"name": "n", "level": 3}
                c = {"kind": "single", "i": 31000 + j2, "tkind": tkd, "seed": 11 + j2, "schema_state": stt, "schema": sch, "require": None, "schema_symlink": True, "levels": lv}
                if brk != "none":
                    lv[brk]["level"] = "three"
                    c["broke"] = [brk, "wrong-type"]
                cases.append(c)
            # fixed witnesses: built-in templates, require-template-schema-exists false at each level, data violating the built-in schema at each level (and conforming data)
            j = 0
            for t in ("testify", "matryer"):
                for rl in ("root", "pkg", "iface"):
                    for brk in ("none", "root", "pkg", "ifaceA", "cfgA0", "cfgA1", "ifaceB"):
                        lv = {l: {} for l in LEVELS}
                        lv["root"] = {"boilerplate-file": ""} if False else {}
                        c = {"kind": "single", "i": 30000 + j, "tkind": t, "seed": 7 + j, "schema_state": "builtin", "schema": BUILTIN_SCHEMA[t], "require": False, "require_level": rl, "levels": lv}
                        if brk != "none":
                            lv[brk]["zz-unknown"] = 1
                            c["broke"] = [brk, "unknown-key"]
                        cases.append(c)
                        j += 1
            # every bare word the tool might accept as the name of a built-in template
            cases += [{"kind": "builtin-name", "i": 32000 + j, "name": nm} for j, nm in enumerate(CANDIDATE_BUILTIN_NAMES)]
            cases += [{"kind": "recparent", "i": 33000 + j, "variant": v, "listed": l} for j, (v, l) in enumerate(
                (a, b) for a in ("conforming", "wrong-type", "undeclared") for b in ("by-name", "all"))]
        ctx.run_cases(cases, eval_case)
    finally:
        ctx.server.close()
    return ctx.finish()


if __name__ == "__main__":
    core.main_wrapper("C12", "exploration", body)
