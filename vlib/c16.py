"""C16 — the template function library matches its documented semantics on all inputs.

Plane P4: a Go harness linked against the working tree's template_funcs.FuncMap applies every
function through text/template to generated argument tuples and compares with independent
references (child process per batch; every application logged before it is evaluated).
Plane P1: a sample of the same applications is pushed through the real binary twice — as a
templated config value and inside a file:// template — to confirm both wiring points.
"""
import json
import os
import subprocess

from . import core
from .core import Verdict


def run_batch(ctx, case):
    h = ctx.harness
    d = ctx.newdir("b")
    fx = os.path.join(d, "fx")
    os.makedirs(fx)
    open(os.path.join(fx, "present.txt"), "w").write("line1\nline2 é\n")
    if not os.path.lexists(os.path.join(fx, "link-to-present.txt")):
        os.symlink("present.txt", os.path.join(fx, "link-to-present.txt"))
    open(os.path.join(fx, "empty.txt"), "w").close()
    log = os.path.join(d, "apps.log")
    r = core.run([h, "check", str(case["seed"]), str(case["count"]), log, fx], cwd=d, env=core.scratch_env(), timeout=1200)
    if r.timed_out:
        return Verdict.inconclusive("watchdog")
    if r.exit != 0:
        last = ""
        try:
            last = open(log, errors="replace").read().splitlines()[-1]
        except Exception:
            pass
        return Verdict.violated("template function crashed the process (exit %s); last application logged: %s" % (r.exit, last),
                                dict(r.brief(), last_application=last))
    s = json.loads(r.out.strip().splitlines()[-1])
    ctx.count("applications", s["applications"])
    for k, v in s["per_fn"].items():
        ctx.tag("fn=" + k, v)
    with ctx.lock:
        ctx.extra.setdefault("function_samples", [])
        if len(ctx.extra["function_samples"]) < 12:
            ctx.extra["function_samples"] += s["samples"][:3]
        ctx.extra["funcmap_size"] = s["funcmap_size"]
        ctx.extra["arg_classes_seen"] = max(ctx.extra.get("arg_classes_seen", 0), s["classes"])
    if s["not_covered"] and case["count"] >= 5000:
        return Verdict.violated("functions of the FuncMap never exercised (new/renamed function without reference?): %s" % s["not_covered"], s)
    if s["mismatches"]:
        m = s["mismatches"][0]
        return Verdict.violated("%s: got %r (err %r), reference %s" % (m["app"]["expr"], m["got"], m["got_err"],
                                "error" if m["app"]["want_err"] else repr(m["app"]["want"])), {"mismatches": s["mismatches"][:10]})
    return Verdict.held({"applications": s["applications"], "functions": len(s["per_fn"])})


def run_wiring(ctx, case):
    """P1 confirmation through the real binary."""
    h = ctx.harness
    d = ctx.newdir("s")
    r = core.run([h, "sample", str(case["seed"]), str(case["count"]), os.path.join(d, "log"), d], cwd=d, env=core.scratch_env(), timeout=300)
    apps = [json.loads(l) for l in r.out.splitlines() if l.strip()]
    apps = [a for a in apps if not a["want_err"] and a["fn"] not in ("expandEnv", "getenv") and "`" not in a["expr"]]

    def verb(a):
        return '%q' if a["want"].startswith('"') or a["want"].startswith("[") else '%v'

    files = {"p/a.go": "package p\n\ntype I interface{ M() }\n"}
    tmpl = ["FILE-TEMPLATE"]
    for i, a in enumerate(apps):
        tmpl.append("T%d=" % i + '{{ printf "%s" (%s) }}' % (verb(a), a["expr"]))
    tmpl.append("{{ range .Interfaces }}S={{ .StructName }}\n{{ end }}")
    files["probe.templ"] = "\n".join(tmpl) + "\n"
    configs = []
    for i, a in enumerate(apps):
        configs.append({"structname": 'C%d={{ printf "%s" (%s) }}' % (i, verb(a), a["expr"])})
    cfg = {"template": "file://probe.templ", "require-template-schema-exists": False, "formatter": "noop", "dir": "out", "filename": "out.txt",
           "pkgname": "p", "packages": {"example.com/m/p": {"interfaces": {"I": {"configs": configs}}}}}
    files[".mockery.yml"] = json.dumps(cfg, ensure_ascii=False)
    root = core.scratch_module(ctx, files)
    r = core.run_mockery(ctx, root, [], timeout=300)
    if r.timed_out:
        return Verdict.inconclusive("watchdog")
    if r.exit != 0:
        return Verdict.violated("mockery failed on the wiring probe", r.brief())
    out = open(os.path.join(root, "out", "out.txt"), errors="surrogateescape").read()
    got_t, got_c = {}, {}
    for line in out.split("\n"):
        if line.startswith("T") and "=" in line:
            k, _, v = line.partition("=")
            got_t[k] = v
        elif line.startswith("S=C"):
            k, _, v = line[2:].partition("=")
            got_c[k] = v
    bad = []
    n = 0
    for i, a in enumerate(apps):
        if "\\n" in a["want"] or "\n" in a["want"]:
            continue
        n += 1
        want = a["want"]
        if got_t.get("T%d" % i) != want:
            bad.append(("file:// template", a["expr"], got_t.get("T%d" % i), want))
        if got_c.get("C%d" % i) != want:
            bad.append(("templated config value", a["expr"], got_c.get("C%d" % i), want))
    ctx.count("wiring_applications", 2 * n)
    if bad:
        return Verdict.violated("function map wired differently in %s: %s gives %r, reference %r" % bad[0], {"bad": bad[:10]})
    return Verdict.held({"wiring_applications": 2 * n})


def run_concurrent(ctx, case):
    """fresh race-instrumented processes whose very first use of the library comes from 64 goroutines at once"""
    log = os.path.join(ctx.newdir("conc"), "log.txt")
    reports = 0
    for k in range(case["processes"]):
        r = core.run([ctx.harness_race, "concurrent", str(case["seed"] + k), "0", log, ctx.fixture if hasattr(ctx, "fixture") else "/dev/null"], cwd=ctx.root,
                     env=core.scratch_env({"GORACE": "halt_on_error=1"}), timeout=600)
        if r.timed_out:
            return Verdict.inconclusive("watchdog")
        if "WARNING: DATA RACE" in r.err or "concurrent map" in r.err:
            frames = [l.strip() for l in r.err.splitlines() if "template_funcs" in l][:6]
            return Verdict.violated("the function library is not safe on concurrent first use: %s" % ("data race" if "DATA RACE" in r.err else "runtime crash"),
                                    {"frames": frames, "stderr_tail": r.err[-1500:]}, ["concurrent-first-use"])
        if r.exit != 0:
            return Verdict.violated("template function crashed the process on concurrent first use (exit %s)" % r.exit, r.brief(), ["concurrent-first-use"])
        try:
            if json.loads(r.out.strip().splitlines()[-1]).get("concurrent_bad"):
                return Verdict.violated("wrong results on concurrent first use of the function library", {"out": r.out[-500:]}, ["concurrent-first-use"])
        except Exception:
            return Verdict.inconclusive("unparsable output of the concurrent probe: " + r.out[-200:])
        reports += 1
    ctx.count("concurrent_first_use_processes", reports)
    return Verdict.held({"processes": reports, "goroutines_each": 64}, tags=["concurrent-first-use"])


def eval_case(ctx, case):
    if case["kind"] == "concurrent":
        return run_concurrent(ctx, case)
    return run_wiring(ctx, case) if case["kind"] == "wiring" else run_batch(ctx, case)


def body(ctx, replay=None):
    core.build_mockery(ctx)
    ctx.harness = core.build_harness(ctx, "funcs")
    ctx.harness_race = core.build_harness(ctx, "funcs", race=True)
    ctx.rule = ("each case = one child process applying `count` generated (function, argument tuple) applications through text/template with the real "
                "FuncMap and comparing with independent references (strings/regexp/filepath/unicode/math namesakes; machine-int folds); argument "
                "classes: empty, ASCII, multi-byte, invalid UTF-8, separators at either end/doubled, very long, negative/zero/huge ints, zero divisors; "
                "non-trivial = a batch that applied every function of the map at least once; distinct = (seed,count) pairs")
    ctx.assumptions = ["firstIsLower on caseless/title-case/invalid first characters and exported/firstLower/firstUpper on an invalid first byte: totality only",
                       "camelcase/snakecase/kebabcase: exact results only on plain ASCII word inputs", "randInt: non-negative int, no reference value"]
    if replay is not None:
        cases = [replay]
    else:
        nb, cnt = (16, 10000) if ctx.tier == "quick" else (64, 32000)
        cases = [{"kind": "batch", "seed": ctx.seed * 100003 + i, "count": cnt} for i in range(nb)]
        cases += [{"kind": "concurrent", "seed": ctx.seed * 13, "processes": 8 if ctx.tier == "quick" else 24}]
        cases += [{"kind": "wiring", "seed": ctx.seed * 7 + j, "count": 200} for j in range(1 if ctx.tier == "quick" else 6)]
    ctx.run_cases(cases, eval_case)
    return ctx.finish()


if __name__ == "__main__":
    core.main_wrapper("C16", "exploration", body)
