"""C04 — matryer-style mocks forward calls and record them faithfully.

Plane P3: freshly generated matryer mocks (C01 corpus, every combination of skip-ensure /
stub-impl / with-resets) are linked into a test binary together with a reflection-only driver
that runs random histories of calls (Func set or nil), Calls() reads and resets against a dict
model and logs every step; findings come back as structured events.
"""
import itertools
import json
import os
import random
import re

from . import core, gosrc, mockgen, c01, drvrun
from .core import Verdict

CHUNK = 14
FOCUS_FEATURES = ("shape.alias-func-named-like-builtin",)


def gen_cases(ctx):
    rng = ctx.rng
    cases = []
    combos = list(itertools.product([None, True], [None, True], [None, True]))  # skip-ensure, stub-impl, with-resets
    ci = 0
    for inpkg in (True, False):
        g = gosrc.Gen(random.Random(ctx.seed * 31 + inpkg), inpkg_only=inpkg)
        cat = gosrc.catalogue(g)
        order = list(range(len(cat)))
        random.Random(ctx.seed * 7 + inpkg).shuffle(order)
        chunks = [order[k:k + CHUNK] for k in range(0, len(order), CHUNK)]
        if ctx.tier == "quick":
            chunks = chunks[::2] if inpkg else chunks[1::2]
        for ch in chunks:
            reps = 1 if ctx.tier == "quick" else 3
            for _ in range(reps):
                se, st, wr = combos[ci % len(combos)]
                ci += 1
                td = {}
                if se:
                    td["skip-ensure"] = True
                if st:
                    td["stub-impl"] = True
                if wr:
                    td["with-resets"] = True
                cases.append({"kind": "catalogue", "inpkg": inpkg, "genseed": ctx.seed * 31 + inpkg, "idx": ch, "template": "matryer", "formatter": "goimports",
                              "placement": "inpkg-test" if inpkg else rng.choice(["outpkg", "xtest"]), "td": td, "gomod": "plain", "srckind": "ordinary",
                              "drvseed": rng.randrange(1, 1 << 20), "td_level": ["root", "iface", "recparent"][ci % 3], "golang": [None, "1.21", None, "1.20", None, "1.18"][ci % 6]})
    # fixed witnesses (rule of DESIGN 10.9): catalogue features whose detection must not depend on the shuffle, without any option (a nil Func must panic)
    for inpkg in (True, False):
        g = gosrc.Gen(random.Random(ctx.seed * 31 + inpkg), inpkg_only=inpkg)
        idx = [k for k, i in enumerate(gosrc.catalogue(g)) if i["feature"] in FOCUS_FEATURES]
        cases.append({"kind": "catalogue", "inpkg": inpkg, "genseed": ctx.seed * 31 + inpkg, "idx": idx, "template": "matryer", "formatter": "goimports",
                      "placement": "inpkg-test" if inpkg else "outpkg", "td": {}, "gomod": "plain", "srckind": "ordinary", "drvseed": 7, "td_level": "root"})
    # every option true at the top level and explicitly false (its default) on every second interface: an explicit default is a setting, not an absence
    for inpkg in ((True,) if ctx.tier == "quick" else (True, False)):
        for k in range(2 if ctx.tier == "quick" else 6):
            cases.append({"kind": "catalogue", "inpkg": inpkg, "genseed": ctx.seed * 31 + inpkg, "idx": list(range(40 * k, 40 * k + CHUNK)), "template": "matryer", "formatter": "goimports",
                          "placement": "inpkg-test" if inpkg else "outpkg", "td": {"skip-ensure": True, "stub-impl": True, "with-resets": True}, "gomod": "plain",
                          "srckind": "ordinary", "drvseed": rng.randrange(1, 1 << 20), "td_level": "root", "override_false": True})
    for k in range(4 if ctx.tier == "quick" else 24):
        inpkg = k % 2 == 0
        cases.append({"kind": "catalogue", "kind2": "dup", "inpkg": inpkg, "genseed": ctx.seed * 31 + inpkg, "idx": list(range(12 * k, 12 * k + CHUNK)), "template": "matryer",
                      "formatter": "gofmt", "placement": "inpkg-test" if inpkg else "outpkg", "td": {"with-resets": True} if k % 2 else {}, "gomod": "plain", "srckind": "ordinary",
                      "drvseed": 1})
    for k in range(6 if ctx.tier == "quick" else 40):
        inpkg = k % 2 == 0
        cases.append({"kind": "random" if k % 3 else "catalogue", "inpkg": inpkg, "genseed": rng.randrange(1 << 30) if k % 3 else ctx.seed * 31 + inpkg,
                      "count": 8, "idx": list(range(8 * k, 8 * k + 8)), "template": "matryer", "formatter": "goimports", "placement": "inpkg-test" if inpkg else "outpkg",
                      "td": {}, "onefile": True, "gomod": "plain", "srckind": "ordinary", "drvseed": rng.randrange(1, 1 << 20)})
    n = 6 if ctx.tier == "quick" else 60
    for k in range(n):
        se, st, wr = combos[(ci + k) % len(combos)]
        td = {k2: True for k2, v in (("skip-ensure", se), ("stub-impl", st), ("with-resets", wr)) if v}
        inpkg = rng.random() < 0.5
        cases.append({"kind": "random", "inpkg": inpkg, "genseed": rng.randrange(1 << 30), "count": CHUNK, "template": "matryer", "formatter": "goimports",
                      "placement": "inpkg-test" if inpkg else "outpkg", "td": td, "gomod": "plain", "srckind": "ordinary", "drvseed": rng.randrange(1, 1 << 20)})
    return cases


MOCK_HDR = re.compile(r"^// (\w+) is a mock implementation of ", re.M)
ENSURE_HDR = re.compile(r"^// Ensure that \w+ does implement ", re.M)


def mock_chunks(text):
    """generated matryer file -> {struct name: text of that mock (its type, constructor-less API, methods), ensure blocks cut away}"""
    out = {}
    hs = list(MOCK_HDR.finditer(text))
    for n, m in enumerate(hs):
        end = hs[n + 1].start() if n + 1 < len(hs) else len(text)
        chunk = text[m.start():end]
        e = ENSURE_HDR.search(chunk)
        if e:
            chunk = chunk[:e.start()]
        out[m.group(1)] = chunk.rstrip() + "\n"
    return out


def eval_dup(ctx, case):
    """a mock is the same text whether its `configs` entry stands alone or next to a second entry for the same interface in the same output file:
    record fields, parameter names and Func types derive from the interface, not from what was rendered before"""
    ifaces = [i for i in c01.case_ifaces(case) if not i["tparams"]]
    case = dict(case, onefile=True)
    root, info = mockgen.build_module(ctx, case, ifaces)
    pre = mockgen.precheck(root)
    if pre.exit != 0:
        return Verdict.inconclusive("generated package rejected by the toolchain: " + (pre.err + pre.out)[-400:])
    cfg = info["cfg"]
    outp = os.path.join(root, mockgen.out_file(info, ifaces[0], case["placement"]))
    texts = {}
    for mode in ("alone", "twice"):
        c2 = json.loads(json.dumps(cfg))
        c2["force-file-write"] = True
        ents = c2["packages"][info["srcpath"]]["interfaces"]
        for i in ifaces:
            sn = drvrun.struct_name(i)
            ents[i["name"]] = {"configs": [{"structname": sn}] + ([{"structname": "Second" + sn}, {"structname": "Third" + sn}] if mode == "twice" else [])}
        with open(os.path.join(root, ".mockery.yml"), "w") as f:
            f.write(json.dumps(c2))
        r = core.run_mockery(ctx, root, [], timeout=600)
        if r.timed_out:
            return Verdict.inconclusive("watchdog")
        if r.exit != 0 or r.panicked:
            # generation failures of catalogue interfaces are C01's business
            return Verdict.skipped("mockery failed for this chunk (C01's business): exit %s" % r.exit)
        texts[mode] = mock_chunks(open(outp, errors="replace").read())
    tags = ["placement=" + case["placement"], "configs-entry-alone-vs-with-siblings"]
    compared = 0
    for i in ifaces:
        sn = drvrun.struct_name(i)
        a, b = texts["alone"].get(sn), texts["twice"].get(sn)
        if a is None or b is None:
            return Verdict.violated("mock %s is missing from the output (alone: %s, with sibling entries: %s)" % (sn, a is not None, b is not None), {"iface": gosrc.render_iface(i)}, tags)
        if a != b:
            import difflib
            d = [l for l in difflib.unified_diff(a.splitlines(), b.splitlines(), "alone", "with-sibling-entries", lineterm="", n=0)][:14]
            return Verdict.violated("mock %s (feature %s) differs when the same interface has further `configs` entries in the same file: %s" % (sn, i["feature"], d[2:6]),
                                    {"diff": d, "iface": gosrc.render_iface(i)}, tags)
        # the later entries' mocks must exist; their text is NOT compared with the first entry's: by then the file's registry knows more import qualifiers,
        # and a parameter named like one of them is legitimately renamed there (context -> context1) although the first mock kept it
        for extra in ("Second" + sn, "Third" + sn):
            if extra not in texts["twice"]:
                return Verdict.violated("configs entry %s produced no mock" % extra, {}, tags)
        compared += 1
    return Verdict.held({"mocks_compared": compared}, nontrivial=compared > 0, tags=tags)


def eval_case(ctx, case):
    if case.get("kind2") == "dup":
        return eval_dup(ctx, case)
    ifaces = c01.case_ifaces(case)
    if case.get("onefile"):
        # all mocks in ONE output file, every interface with its own combination of options
        r = random.Random(case["drvseed"])
        case = dict(case, td={}, td_by_name={i["name"]: {k: True for k in ("skip-ensure", "stub-impl", "with-resets") if r.random() < 0.5} for i in ifaces})
    if case.get("override_false"):
        case = dict(case, td_by_name={i["name"]: {"skip-ensure": False, "stub-impl": False, "with-resets": False} for k, i in enumerate(ifaces) if k % 2 == 0})
    root, info, usable, note = drvrun.prepare(ctx, case, ifaces, ctx.known)
    if root is None and isinstance(note, dict) and note.get("crash"):
        return Verdict.violated(note["crash"], note, ["tool-crash-during-generation"])
    if root is None:
        return Verdict.skipped(note) if usable == [] else Verdict.inconclusive(note)
    if not usable:
        return Verdict.skipped("no usable mock in this chunk")
    inpkg = case["placement"] in mockgen.IN_PACKAGE
    reg, skipped = drvrun.registration(info, usable, case, inpkg)
    drvrun.install_driver(root, info, ["core", "matryer"], reg)
    hist = 25 if ctx.tier == "quick" else 120
    r, findings, summary, races = drvrun.run_tests(root, info, "^TestDrvMatryer$", {"DRV_SEED": str(case["drvseed"]), "DRV_HISTORIES": str(hist), "DRV_HISTLEN": "12"})
    td = case.get("td") or {}
    tags = ["placement=" + case["placement"]] + ["td." + k for k in td] + (["td.none"] if not td else []) + (["explicit-false-on-interfaces"] if case.get("override_false") else [])
    if r.timed_out:
        return Verdict.inconclusive("watchdog")
    if summary is None:
        cr = drvrun.crash_in_generated(r)
        if cr:
            return Verdict.violated("the test binary linked with the generated mocks died while the driver ran (%s) with a generated file on the stack (%s)" % (
                cr["crash"], cr["generated_frame"]), dict(cr, **{"template-data": td}), tags)
        return Verdict.inconclusive("driver did not run to completion (exit %s): %s" % (r.exit, (r.out + r.err)[-800:]))
    cnt = summary["counters"]
    for k, v in cnt.items():
        ctx.count(k, v)
    ctx.count("mocks_driven", summary["mocks"])
    ctx.count("generic_without_type_arguments_skipped", skipped)
    with ctx.lock:
        ctx.extra.setdefault("history_samples", [])
        if len(ctx.extra["history_samples"]) < 8:
            ctx.extra["history_samples"] += (summary.get("samples") or [])[:2]
    if findings:
        f = findings[0]
        return Verdict.violated("%s.%s [%s/%s]: %s" % (f["mock"], f["method"], f["style"], f["sig"], f["what"]),
                                {"findings": findings[:10], "template-data": td, "kf_key": "c04:%s:%s:%s" % (f["style"], f["sig"], f.get("feature"))}, tags)
    return Verdict.held({"mocks": summary["mocks"], "calls": cnt.get("matryer.calls", 0), "calls_reads": cnt.get("matryer.calls-reads", 0),
                         "resets": cnt.get("matryer.resets", 0), "histories": cnt.get("matryer.histories", 0)}, nontrivial=cnt.get("matryer.calls", 0) > 0, tags=tags)


def body(ctx, replay=None):
    core.build_mockery(ctx)
    ctx.known = core.KnownFindings.load()
    ctx.rule = ("each case = a package of up to 14 catalogue/random interfaces mocked with the matryer template under one of the 8 combinations of skip-ensure/stub-impl/"
                "with-resets, in a separate package, a same-directory _test package or in-package; a reflection-only driver runs 25 (quick) / 120 (thorough) histories "
                "of 12 steps per mock: calls with generated arguments (nil/zero/empty/populated, identity-tagged) and a recording MFunc or a nil MFunc, MCalls() reads, "
                "ResetMCalls, ResetCalls, checked step by step against a dict model. non-trivial = at least one call was made; distinct = case hash")
    ctx.assumptions = ["record field names are not asserted (reflection has no parameter names); field order, count, types and values are",
                       "whether a call with a nil MFunc (no stub-impl) is recorded before the panic is not specified and not asserted"]
    cases = [replay] if replay is not None else gen_cases(ctx)
    ctx.run_cases(cases, eval_case, workers=8)
    return ctx.finish()


if __name__ == "__main__":
    core.main_wrapper("C04", "exploration", body)
