"""Reference models for mockery's configuration: hierarchical resolution with deep map merge
(C08), interface selection (C07) and an evaluator for templated values over a closed grammar of
Go text/template with the documented variables/functions, iterated to a fixpoint (C11).

Only what the property statements / the repository's documentation say is modelled.
"""
import copy
import os
import posixpath
import re

DEFAULTS = {
    "all": False, "dir": "{{.InterfaceDir}}", "filename": "mocks_test.go", "force-file-write": False, "formatter": "goimports",
    "log-level": "info", "structname": "{{.Mock}}{{.InterfaceName}}", "pkgname": "{{.SrcPackageName}}", "recursive": False,
    "require-template-schema-exists": True, "template": "testify", "template-data": {}, "template-schema": "{{.Template}}.schema.json",
    "include-interface-regex": "", "exclude-interface-regex": "", "exclude-subpkg-regex": [], "replace-type": None,
}


def go_fmt(v):
    """Go's fmt %v of the decoded YAML value (maps print with sorted keys)."""
    if isinstance(v, bool):
        return "true" if v else "false"
    if v is None:
        return "<nil>"
    if isinstance(v, dict):
        return "map[" + " ".join("%s:%s" % (k, go_fmt(v[k])) for k in sorted(v)) + "]"
    if isinstance(v, (list, tuple)):
        return "[" + " ".join(go_fmt(x) for x in v) + "]"
    return str(v)


def deep_merge(specific, general):
    """Key-wise merge: `specific` wins, nested maps merged recursively."""
    out = copy.deepcopy(specific)
    for k, v in general.items():
        if k not in out:
            out[k] = copy.deepcopy(v)
        elif isinstance(out[k], dict) and isinstance(v, dict):
            out[k] = deep_merge(out[k], v)
    return out


def resolve(levels):
    """levels: list of config dicts, most specific first. Returns the effective config."""
    eff = {}
    for key, default in DEFAULTS.items():
        if key == "template-data":
            # level by level, starting from the least specific: each level is merged with the *effective* value of the level above it, so a
            # non-map value at an intermediate level shadows the map above it also for the more specific levels
            td = {}
            for lv in reversed(levels):
                if isinstance(lv.get("template-data"), dict):
                    td = deep_merge(lv["template-data"], td)
            eff[key] = td
            continue
        val = default
        for lv in levels:
            if key in lv and lv[key] is not None:
                val = lv[key]
                break
        eff[key] = val
    return eff


def levels_for(cfg, pkg, iface=None, idx=None, ancestor=None):
    """Configuration levels, most specific first, for one mock of `pkg`."""
    root = {k: v for k, v in cfg.items() if k != "packages"}
    p = (cfg.get("packages") or {}).get(pkg) or {}
    lv = []
    ic = ((p.get("interfaces") or {}).get(iface) or {}) if iface else {}
    if ic:
        cs = ic.get("configs") or []
        if idx is not None and cs:
            lv.append(cs[idx] or {})
        lv.append(ic.get("config") or {})
    lv.append(p.get("config") or {})
    if ancestor:
        a = (cfg.get("packages") or {}).get(ancestor) or {}
        lv.append(a.get("config") or {})
    lv.append(root)
    return lv


# ------------------------------------------------------------------ selection (C07)

def go_regex_search(pattern, s):
    """Go regexp.MatchString = unanchored search; generators only use a subset whose semantics coincide."""
    return re.search(pattern, s) is not None


def selected(pkg_eff, listed, name):
    if pkg_eff["all"]:
        return True
    if name in listed:
        return True
    inc, exc = pkg_eff["include-interface-regex"], pkg_eff["exclude-interface-regex"]
    if not inc:
        return False
    if not go_regex_search(inc, name):
        return False
    if exc and go_regex_search(exc, name):
        return False
    return True


# ------------------------------------------------------------------ template evaluator (C11)

class TemplateError(Exception):
    pass


class Diverges(Exception):
    pass


INITIALISMS = ["ACL", "API", "ASCII", "CPU", "CSS", "DNS", "EOF", "GUID", "HTML", "HTTP", "HTTPS", "ID", "IP", "JSON", "LHS",
               "QPS", "RAM", "RHS", "RPC", "SLA", "SMTP", "SQL", "SSH", "TCP", "TLS", "TTL", "UDP", "UI", "UID", "UUID", "URI",
               "URL", "UTF8", "VM", "XML", "XMPP", "XSRF", "XSS"]


def _exported(s):
    if not s:
        return ""
    if s.upper() in INITIALISMS:
        return s.upper()
    return s[0].upper() + s[1:]


def _words(s):
    # ASCII identifiers only: split on _ - and lower->Upper boundaries
    s = re.sub(r"([a-z0-9])([A-Z])", r"\1_\2", s)
    s = re.sub(r"([A-Z]+)([A-Z][a-z])", r"\1_\2", s)
    return [w for w in re.split(r"[_\-\s]+", s) if w]


FUNCS = {
    "lower": lambda s: s.lower(), "upper": lambda s: s.upper(),
    "firstLower": lambda s: s[:1].lower() + s[1:], "firstUpper": lambda s: s[:1].upper() + s[1:],
    "replaceAll": lambda old, new, s: s.replace(old, new) if old != "" else s,
    "trimPrefix": lambda p, s: s[len(p):] if p and s.startswith(p) else s,
    "trimSuffix": lambda p, s: s[:-len(p)] if p and s.endswith(p) else s,
    "base": lambda s: _go_base(s), "dir": lambda s: _go_dir(s), "clean": lambda s: _go_clean(s),
    "exported": _exported,
    "snakecase": lambda s: s[:len(s) - len(s.lstrip("_"))] + "_".join(w.lower() for w in _words(s)),   # leading underscores are kept (xstrings)
    "kebabcase": lambda s: "-".join(w.lower() for w in _words(s)),
    "hasPrefix": lambda p, s: s.startswith(p), "hasSuffix": lambda p, s: s.endswith(p), "contains": lambda p, s: p in s,
    "eq": lambda a, b: a == b, "ne": lambda a, b: a != b, "not": lambda a: not _truth(a),
    "printf": None,
}


def _go_clean(p):
    if p == "":
        return "."
    return posixpath.normpath(p) if not p.startswith("//") else "/" + posixpath.normpath(p).lstrip("/")


def _go_base(p):
    if p == "":
        return "."
    p = p.rstrip("/")
    if p == "":
        return "/"
    return p.rsplit("/", 1)[-1]


def _go_dir(p):
    i = p.rfind("/")
    d = p[:i + 1]
    return _go_clean(d)


def _truth(v):
    if isinstance(v, bool):
        return v
    if isinstance(v, str):
        return v != ""
    return bool(v)


_ACTION = re.compile(r"\{\{(-?)\s*(.*?)\s*(-?)\}\}", re.S)
_TOKEN = re.compile(r'\s*("(?:[^"\\]|\\.)*"|`[^`]*`|\||\(|\)|[^\s|()]+)')


def _tokens(s):
    out = []
    pos = 0
    while pos < len(s):
        m = _TOKEN.match(s, pos)
        if not m:
            if s[pos:].strip() == "":
                break
            raise TemplateError("cannot tokenize %r" % s[pos:])
        out.append(m.group(1))
        pos = m.end()
    return out


def _eval_operand(tok, data):
    if tok.startswith('"'):
        return bytes(tok[1:-1], "utf-8").decode("unicode_escape").encode("latin-1", "ignore").decode("utf-8", "ignore") if "\\" in tok else tok[1:-1]
    if tok.startswith("`"):
        return tok[1:-1]
    if tok.startswith("."):
        name = tok[1:]
        if name not in data:
            raise TemplateError("no field %s" % name)
        return data[name]
    if tok in ("true", "false"):
        return tok == "true"
    if re.fullmatch(r"-?\d+", tok):
        return int(tok)
    raise TemplateError("unknown operand %r" % tok)


def _eval_command(toks, data, piped=None):
    """toks: list of tokens of one command (may contain parenthesised sub-pipelines)."""
    # resolve parentheses into values
    vals = []
    i = 0
    items = []
    while i < len(toks):
        t = toks[i]
        if t == "(":
            depth, j = 1, i + 1
            while j < len(toks) and depth:
                if toks[j] == "(":
                    depth += 1
                elif toks[j] == ")":
                    depth -= 1
                j += 1
            items.append(("val", _eval_pipeline(toks[i + 1:j - 1], data)))
            i = j
        else:
            items.append(("tok", t))
            i += 1
    head = items[0]
    if head[0] == "tok" and head[1] in FUNCS:
        fn = head[1]
        args = [it[1] if it[0] == "val" else _eval_operand(it[1], data) for it in items[1:]]
        if piped is not None:
            args.append(piped[0])
        try:
            return FUNCS[fn](*args)
        except TypeError:
            raise TemplateError("wrong number of args for %s" % fn)
    if len(items) != 1 or piped is not None:
        raise TemplateError("non-function command with arguments: %r" % toks)
    return head[1] if head[0] == "val" else _eval_operand(head[1], data)


def _eval_pipeline(toks, data):
    cmds, cur, depth = [], [], 0
    for t in toks:
        if t == "(":
            depth += 1
        elif t == ")":
            depth -= 1
        if t == "|" and depth == 0:
            cmds.append(cur)
            cur = []
        else:
            cur.append(t)
    cmds.append(cur)
    val = None
    for k, c in enumerate(cmds):
        if not c:
            raise TemplateError("empty command")
        val = _eval_command(c, data, None if k == 0 else (val,))
    return val


def render(text, data):
    """One rendering pass of a Go text/template over the supported grammar."""
    # split into text / action nodes honouring trim markers; "}}" inside string literals does not close an action
    nodes = []
    pos = 0
    n = len(text)
    while True:
        i = text.find("{{", pos)
        if i < 0:
            nodes.append(("text", text[pos:]))
            break
        lit = text[pos:i]
        j = i + 2
        ltrim = False
        if text.startswith("- ", j) or text.startswith("-\t", j) or text.startswith("-\n", j):
            ltrim = True
            j += 1
        k = j
        close = -1
        while k < n:
            ch = text[k]
            if ch == '"':
                k += 1
                while k < n and text[k] != '"':
                    if text[k] == "\\":
                        k += 1
                    if k < n and text[k] == "\n":
                        raise TemplateError("unterminated quoted string")
                    k += 1
                if k >= n:
                    raise TemplateError("unterminated quoted string")
                k += 1
            elif ch == "`":
                k = text.find("`", k + 1)
                if k < 0:
                    raise TemplateError("unterminated raw string")
                k += 1
            elif text.startswith("}}", k):
                close = k
                break
            else:
                k += 1
        if close < 0:
            raise TemplateError("unclosed action")
        body = text[j:close]
        rtrim = False
        if body.endswith(" -") or body.endswith("\t-") or body.endswith("\n-"):
            rtrim = True
            body = body[:-1]
        if ltrim:
            lit = lit.rstrip(" \t\r\n")
        nodes.append(("text", lit))
        nodes.append(("action", body.strip(), rtrim))
        pos = close + 2
    # apply right-trim markers
    for i, n in enumerate(nodes):
        if n[0] == "action" and n[2] and i + 1 < len(nodes):
            nodes[i + 1] = ("text", nodes[i + 1][1].lstrip(" \t\r\n"))
    out = []
    stack = []  # (active_before, branch_taken, currently_active)

    def active():
        return all(s[2] for s in stack)

    for n in nodes:
        if n[0] == "text":
            if active():
                out.append(n[1])
            continue
        body = n[1]
        if body.startswith("/*"):
            continue
        toks = _tokens(body)
        if not toks:
            raise TemplateError("empty action")
        if toks[0] == "if":
            if active():
                c = _truth(_eval_pipeline(toks[1:], data))
                stack.append([True, c, c])
            else:
                stack.append([False, True, False])
        elif toks[0] == "else":
            if not stack:
                raise TemplateError("else without if")
            s = stack[-1]
            if len(toks) > 1 and toks[1] == "if":
                if s[0] and not s[1]:
                    c = _truth(_eval_pipeline(toks[2:], data))
                    s[1], s[2] = c, c
                else:
                    s[2] = False
            else:
                s[2] = s[0] and not s[1]
                s[1] = True
        elif toks[0] == "end":
            if not stack:
                raise TemplateError("end without if")
            stack.pop()
        else:
            if active():
                v = _eval_pipeline(toks, data)
                out.append(go_fmt(v) if not isinstance(v, str) else v)
    if stack:
        raise TemplateError("unterminated if")
    return "".join(out)


def fixpoint(text, data, cap=12):
    """Render repeatedly until nothing changes. Diverges if not stable within `cap` rounds."""
    cur = text
    for _ in range(cap):
        nxt = render(cur, data)
        if nxt == cur:
            return cur
        cur = nxt
    raise Diverges(cur[:200])
