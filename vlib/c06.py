"""C06 — generation is deterministic and idempotent.

Plane P1. Each generated configuration family is run k times from byte-identical pristine
trees at the same absolute path (every run is a fresh process, hence a fresh draw of Go's
map-iteration seeds) and then three more times on top of its own output with overwriting
enabled. The monitor compares (exit status, content hash of the whole tree) within a family
and reports how many distinct file-processing orders the syscall trace showed, so the evidence
says whether different internal schedules really were sampled.
"""
import json
import os
import shutil

from . import core
from .core import Verdict

MOD = "example.com/m"


def gen_family(rng, i):
    files = {}
    pkgs = {}
    # same-named foreign packages to stress alias allocation order
    for sub in ("x/model", "y/model", "z/model", "w/codec"):
        files[sub + "/t.go"] = "package %s\n\ntype T struct{ V int }\n\ntype K string\n" % sub.rsplit("/", 1)[-1]
    npk = rng.randint(3, 8)
    tree_roots = ["svc", "lib"]
    names = []
    for k in range(npk):
        base = rng.choice(tree_roots)
        depth = rng.randint(0, 3)
        path = base + "".join("/d%d" % rng.randint(0, 1) for _ in range(depth)) + "/p%d" % k
        names.append(path)
    for path in names:
        pk = path.rsplit("/", 1)[-1]
        n_if = rng.randint(1, 3)
        body = ["package %s" % pk, "", "import (", "\t\"context\"", "\t\"io\"", "\tmx \"example.com/m/x/model\"", "\tmy \"example.com/m/y/model\"",
                "\tmz \"example.com/m/z/model\"", "\t\"example.com/m/w/codec\"", ")", ""]
        ifs = []
        for j in range(n_if):
            nm = rng.choice(["Store", "Reader", "Svc", "Doer", "Cache"]) + str(j)
            meths = rng.sample([
                "Get(ctx context.Context, k mx.K) (my.T, error)", "Put(v mz.T, more ...my.K) error", "Stream(r io.Reader) <-chan codec.T",
                "Map(m map[mx.K][]mz.T) map[my.K]codec.K", "Fn(f func(mx.T) (my.T, mz.T)) func() codec.T", "Close() error", "Multi(a, b int, c string) (x int, y string, err error)",
            ], rng.randint(1, 4))
            body.append("type %s interface {\n\t%s\n}\n" % (nm, "\n\t".join(meths)))
            ifs.append(nm)
        body.append("var _ = mx.T{}\nvar _ = my.T{}\nvar _ = mz.T{}\nvar _ = codec.T{}\nvar _ context.Context\nvar _ io.Reader\n")
        files[path + "/a.go"] = "\n".join(body)
        pkgs[path] = ifs
    # configuration: several recursive roots that nest/overlap, explicit packages, configs lists, shared nested template-data
    files["hdr/boiler.txt"] = "// Copyright (c) Example Corp.\n// SPDX-License-Identifier: MIT\n"
    cfg = {"all": True, "force-file-write": True,
           "template-data": rng.choice([{}, {"mock-build-tags": "roottag || othertag"}, {"boilerplate-file": "hdr/boiler.txt"}])}
    placement = rng.choice(["inpkg-test", "inpkg-nontest", "subdir", "central"])
    if placement == "inpkg-test":
        cfg["filename"] = "mocks_test.go"
    elif placement == "inpkg-nontest":
        cfg["filename"] = "mocks_gen.go"
    elif placement == "subdir":
        cfg.update({"dir": "{{.InterfaceDir}}/mocks", "pkgname": "mocks", "filename": "{{.InterfaceName | snakecase}}.go"})
    else:
        cfg.update({"dir": "allmocks/{{.SrcPackagePath | replaceAll \"/\" \"_\" | replaceAll \".\" \"_\"}}", "pkgname": "allmocks",
                    "filename": rng.choice(["{{ .StructName | trimPrefix \"Mock\" }}_mock.go", "m_{{.StructName}}.go", "{{ .StructName | lower }}.go"])})
    pcfg = {}
    roots = [r for r in tree_roots if any(n.startswith(r + "/") for n in names)]
    for n, rt in enumerate(roots):
        pcfg[MOD + "/" + rt] = {"config": {"recursive": True, "structname": "R%d{{.InterfaceName}}" % n}}
    # nested recursive roots with different settings
    inner = sorted({n.rsplit("/", 1)[0] for n in names if n.count("/") >= 2})
    for n, d in enumerate(rng.sample(inner, min(len(inner), rng.randint(0, 3)))):
        pcfg[MOD + "/" + d] = {"config": {"recursive": True, "structname": "N%d{{.InterfaceName}}" % n, "template": rng.choice(["testify", "matryer"])}}
    # explicit packages with configs lists and per-interface template-data
    for path in rng.sample(names, min(len(names), rng.randint(1, 3))):
        ic = {}
        for nm in pkgs[path]:
            r = rng.random()
            if r < 0.4:
                ic[nm] = {"configs": [{"structname": "%sV%d" % (nm, q), "template": rng.choice(["testify", "matryer"]) if placement != "inpkg-test" and False else "testify"}
                                      for q in range(rng.randint(1, 3))]}
            elif r < 0.7:
                ic[nm] = {"config": {"template-data": {"mock-build-tags": "tag%d" % rng.randint(0, 2)}}}
        entry = {"config": {}}
        if ic:
            entry["interfaces"] = ic
        if rng.random() < 0.5:
            entry["config"]["template-data"] = rng.choice([{"boilerplate-file": "hdr/boiler.txt"}, {"mock-build-tags": "pkgtag"}])
        pcfg[MOD + "/" + path] = entry
    cfg["packages"] = pcfg
    if placement in ("subdir", "central") and rng.random() < 0.5:
        # one file per interface inside a package: exercises per-file state shared across files of one package
        cfg["filename"] = "mock_{{.InterfaceName}}.go" if placement == "subdir" else cfg["filename"]
    files[".mockery.yml"] = json.dumps(cfg, indent=1)
    return {"kind": "family", "i": i, "files": files, "placement": placement}


def fixed_families():
    """families aimed at order dependence *inside* the resolution of templated parameters: other parameters pipe .StructName
    (whose value is itself templated) through functions, so a result that depends on which parameter is rendered first shows up"""
    fams = []
    for tag, filename, dirv in (("trimPrefix", "{{ .StructName | trimPrefix \"Mock\" }}_mock.go", "gen/{{ .StructName | firstLower }}"),
                               ("lower", "{{ .StructName | lower }}.go", "gen/{{.SrcPackageName}}"),
                               ("replace", "{{ .StructName | replaceAll \"Mock\" \"M\" }}.go", "gen/{{ .StructName | snakecase }}")):
        files = {}
        pk = {}
        for k in range(4):
            files["q%d/a.go" % k] = "package q%d\n\ntype Foo%d interface{ F(x int) error }\n\ntype bar%d interface{ B() }\n" % (k, k, k)
            pk[MOD + "/q%d" % k] = {"config": {"all": True}}
        cfg = {"force-file-write": True, "filename": filename, "dir": dirv, "pkgname": "gen", "packages": pk}
        files[".mockery.yml"] = json.dumps(cfg, indent=1)
        fams.append({"kind": "family", "i": -1 - len(fams), "files": files, "placement": "templated-over-structname-" + tag})
    # explicitly configured packages nested below recursive ones, each level with its own dir/structname: which ancestor a package
    # inherits from must not depend on the order in which the packages map is walked
    for tag, root_recursive in (("nested-explicit", False), ("nested-explicit-root-recursive", True)):
        files = {}
        for d, nm in (("a", "Alpha"), ("a/b", "Beta"), ("a/b/c", "Gamma"), ("a/b/c/d", "Delta"), ("a/x", "Xi"), ("z", "Zeta")):
            files[d + "/s.go"] = "package %s\n\ntype %s interface{ M(x int) error }\n" % (d.rsplit("/", 1)[-1], nm)
        pk = {MOD + "/a": {"config": {"recursive": True, "dir": "mocks/{{.SrcPackageName}}", "structname": "Mock{{.InterfaceName}}", "pkgname": "mocks"}},
              MOD + "/a/b": {"config": {"dir": "fakes/{{.SrcPackageName}}", "structname": "Fake{{.InterfaceName}}", "pkgname": "fakes"}},
              MOD + "/a/b/c": {"config": {}}, MOD + "/a/b/c/d": None, MOD + "/z": {"config": {"template-data": {"mock-build-tags": "ztag"}}}}
        if not root_recursive:
            pk[MOD + "/a/b"]["config"]["recursive"] = True
        cfg = {"all": True, "force-file-write": True, "filename": "m_{{.InterfaceName}}.go", "packages": pk}
        if root_recursive:
            cfg["recursive"] = True
            pk[MOD + "/a"]["config"].pop("recursive")
        files[".mockery.yml"] = json.dumps(cfg, indent=1)
        fams.append({"kind": "family", "i": -1 - len(fams), "files": files, "placement": tag})
    # several packages share the top-level include-interface-regex and differ in their own exclude-interface-regex (one has none): the set of
    # files written must be the same in every run, whichever package is looked at first
    files = {}
    pk = {}
    for k, exc in enumerate(["Two$", None, "One$", "^Svc", "Helper"]):
        files["s%d/a.go" % k] = "package s%d\n\ntype SvcOne interface{ A() }\n\ntype SvcTwo interface{ B(x int) }\n\ntype SvcHelper interface{ H() }\n" % k
        pk[MOD + "/s%d" % k] = {"config": ({"exclude-interface-regex": exc} if exc else {})}
    cfg = {"force-file-write": True, "include-interface-regex": "^Svc", "filename": "mock_{{.InterfaceName}}_test.go", "packages": pk}
    files[".mockery.yml"] = json.dumps(cfg, indent=1)
    fams.append({"kind": "family", "i": -1 - len(fams), "files": files, "placement": "shared-include-different-excludes"})
    # a template-data key overridden at a more specific level next to keys that only the less specific level sets: the merge must
    # carry all of them whatever order the keys are visited in
    for tag, tmpl, keys in (("template-data-override-next-to-inherited-keys-testify", "testify", {"unroll-variadic": True}),
                            ("template-data-override-next-to-inherited-keys-matryer", "matryer", {"skip-ensure": True, "stub-impl": True, "with-resets": True})):
        files = {"hdr/boiler.txt": "// Copyright (c) Example Corp.\n"}
        for k in range(3):
            files["v%d/a.go" % k] = "package v%d\n\ntype V%d interface{ M(x int, ys ...string) error }\n\ntype U%d interface{ N() }\n" % (k, k, k)
        root_td = dict(keys, **{"mock-build-tags": "roottag", "boilerplate-file": "hdr/boiler.txt"})
        first = sorted(keys)[0]
        pk = {MOD + "/v0": {"config": {"all": True, "template-data": {first: False}}},
              MOD + "/v1": {"config": {"all": True, "template-data": {"mock-build-tags": "v1tag"}}, "interfaces": {"U1": {"config": {"template-data": {first: False}}}}},
              MOD + "/v2": {"config": {"all": True}, "interfaces": {"V2": {"configs": [{"template-data": {"boilerplate-file": "hdr/boiler.txt", first: False}}, {"structname": "V2b"}]}}}}
        cfg = {"force-file-write": True, "template": tmpl, "filename": "mock_{{.StructName}}_test.go", "template-data": root_td, "packages": pk}
        files[".mockery.yml"] = json.dumps(cfg, indent=1)
        fams.append({"kind": "family", "i": -1 - len(fams), "files": files, "placement": tag})
    # file-scope template-data keys (mock-build-tags, boilerplate-file) set on single interfaces only, one output file per interface:
    # what one file gets must not depend on which sibling file of the package was rendered before it
    for tag, tmpl in (("file-scope-keys-at-interface-level-testify", "testify"), ("file-scope-keys-at-interface-level-matryer", "matryer")):
        files = {"hdr/boiler.txt": "// Copyright (c) Example Corp.\n"}
        body = "package w\n\n" + "".join("type W%d interface{ M%d(x int) error }\n\n" % (k, k) for k in range(6))
        files["w/a.go"] = body
        ifs = {"W%d" % k: {} for k in range(6)}
        ifs["W1"] = {"config": {"template-data": {"mock-build-tags": "onlyw1"}}}
        ifs["W3"] = {"config": {"template-data": {"boilerplate-file": "hdr/boiler.txt"}}}
        ifs["W4"] = {"configs": [{"structname": "W4a"}, {"structname": "W4b", "template-data": {"mock-build-tags": "onlyw4b"}}]}
        cfg = {"force-file-write": True, "template": tmpl, "filename": "mock_{{.StructName}}.go", "dir": "{{.InterfaceDir}}/mocks", "pkgname": "mocks",
               "packages": {MOD + "/w": {"interfaces": ifs}}}
        files[".mockery.yml"] = json.dumps(cfg, indent=1)
        fams.append({"kind": "family", "i": -1 - len(fams), "files": files, "placement": tag})
    # several output files share one custom template and its schema and differ in require-template-schema-exists; one of the files that waive the
    # schema carries data the schema forbids, one that requires it carries data the schema rejects: which files are written and the exit status
    # must not depend on which file is rendered first
    tmpl = "// custom\n\npackage {{.PkgName}}\n\n{{range .Interfaces}}// mock of {{.Name}} greeting={{index $.TemplateData \"greeting\"}}\ntype {{.StructName}} struct{}\n{{end}}"
    schema = {"$schema": "http://json-schema.org/draft-07/schema#", "type": "object", "additionalProperties": False, "properties": {"greeting": {"type": "string"}}}
    for tag, strict_td in (("shared-custom-template-different-schema-requirement-all-valid", {"greeting": "hi"}),
                           ("shared-custom-template-different-schema-requirement-one-rejected", {"greeting": 42})):
        files = {"tmpl/custom.templ": tmpl, "tmpl/custom.templ.schema.json": json.dumps(schema)}
        pk = {}
        for k in range(5):
            files["r%d/a.go" % k] = "package r%d\n\ntype R%d interface{ M(x int) error }\n" % (k, k)
            c = {"all": True}
            if k in (0, 2, 3):
                c.update({"require-template-schema-exists": False, "template-data": {"greeting": "legacy", "forbidden-by-schema": k}})
            elif k == 4:
                c.update({"template-data": strict_td})
            else:
                c.update({"template-data": {"greeting": "hello"}})
            pk[MOD + "/r%d" % k] = {"config": c}
        cfg = {"force-file-write": True, "template": "file://tmpl/custom.templ", "formatter": "noop", "filename": "custom_{{.InterfaceName}}.go", "dir": "{{.InterfaceDir}}/gen",
               "pkgname": "gen", "packages": pk}
        files[".mockery.yml"] = json.dumps(cfg, indent=1)
        fams.append({"kind": "family", "i": -1 - len(fams), "files": files, "placement": tag})
    # generic interfaces with every constraint form, the self-referential ones included (what a walk over types does with them must not depend on the run)
    files = {"g/a.go": "package g\n\nimport \"fmt\"\n\ntype Num interface{ ~int | ~float64 }\n\ntype Cmp[T any] interface{ Less(o T) bool }\n\n"
             "type Box[T any] interface{ Get() T }\n\ntype Keyed[K comparable, V fmt.Stringer] interface{ Put(k K, v V) }\n\n"
             "type Sum[N Num] interface{ Add(a, b N) N }\n\ntype Sorter[T interface{ Less(o T) bool }] interface{ Sort(xs []T) []T }\n\n"
             "type Tree[T Cmp[T]] interface{ Insert(v T) bool }\n"}
    cfg = {"force-file-write": True, "all": True, "template": "testify", "filename": "mock_{{.InterfaceName}}_test.go", "packages": {MOD + "/g": {}}}
    files[".mockery.yml"] = json.dumps(cfg, indent=1)
    fams.append({"kind": "family", "i": -1 - len(fams), "files": files, "placement": "generic-interfaces-all-constraint-forms"})
    # a recursive package whose mocks go into a new directory *below each source package*: the first run creates sub-directories that the second
    # run's sub-package discovery meets (holding only _test.go files, or ordinary files of a package named mocks)
    for tag, fn in (("recursive-output-below-package-test-only", "mocks_test.go"), ("recursive-output-below-package", "mocks.go")):
        files = {}
        for d, nm in (("svc", "Alpha"), ("svc/inner", "Beta"), ("svc/inner/deep", "Gamma"), ("other", "Zeta")):
            files[d + "/s.go"] = "package %s\n\ntype %s interface{ M(x int) error }\n" % (d.rsplit("/", 1)[-1], nm)
        cfg = {"all": True, "force-file-write": True, "dir": "{{.InterfaceDir}}/mocks", "filename": fn, "pkgname": "mocks",
               "packages": {MOD + "/svc": {"config": {"recursive": True}}, MOD + "/other": {}}}
        files[".mockery.yml"] = json.dumps(cfg, indent=1)
        fams.append({"kind": "family", "i": -1 - len(fams), "files": files, "placement": tag})
    # one output file addressed through two spellings of its directory (relative, and through {{.InterfaceDir}}), from a real working directory and
    # from one reached through a symbolic link: both mocks are in the file in every run
    for tag, link in (("one-file-two-dir-spellings", False), ("one-file-two-dir-spellings-cwd-via-symlink", True)):
        files = {"pkg/a.go": "package pkg\n\ntype Alpha interface{ A(x int) error }\n\ntype Beta interface{ B() string }\n\ntype Gamma interface{ C() }\n"}
        cfg = {"force-file-write": True, "pkgname": "mocks", "filename": "mocks.go",
               "packages": {MOD + "/pkg": {"interfaces": {"Alpha": {"config": {"dir": "pkg/mocks"}}, "Beta": {"config": {"dir": "{{.InterfaceDir}}/mocks"}},
                                                           "Gamma": {"config": {"dir": "./pkg/../pkg/mocks/"}}}}}}
        files[".mockery.yml"] = json.dumps(cfg, indent=1)
        fams.append({"kind": "family", "i": -1 - len(fams), "files": files, "placement": tag, "via_symlink": link})
    return fams


def write_order(events, root):
    out = []
    for e in events:
        if e["ok"] and e["op"] == "open_w":
            rel = os.path.relpath(e["path"], root)
            if rel.endswith(".go") and rel not in out:
                out.append(rel)
    return tuple(out)


def eval_family(ctx, case):
    k = ctx.k_runs
    root = core.scratch_module(ctx, {})
    pristine = ctx.newdir("pristine")
    core.write_tree(pristine, dict(case["files"], **{"go.mod": core.GOMOD_TMPL % MOD, "go.sum": core.go_sum_text()}))

    def reset():
        for name in os.listdir(root):
            p = os.path.join(root, name)
            shutil.rmtree(p) if os.path.isdir(p) and not os.path.islink(p) else os.unlink(p)
        shutil.copytree(pristine, root, dirs_exist_ok=True)

    strace = core.strace_available()
    cwd, env_extra = root, None
    if case.get("via_symlink"):
        # the working directory is reached through a symbolic link and $PWD says so (the state of a shell after `cd link/mod`)
        cwd = root.rstrip("/") + "-link"
        if not os.path.islink(cwd):
            os.symlink(root, cwd)
        env_extra = {"PWD": cwd}
    results = []
    orders = set()
    first = None
    tags = ["placement=" + case["placement"]]
    for run in range(k):
        for attempt in range(3):   # a tracer failure says nothing about mockery: the run is repeated from the same pristine tree
            reset()
            r = core.run_mockery(ctx, cwd, [], env_extra=env_extra, strace=strace, timeout=600, root=root)
            if not r.tracer_failed:
                break
            ctx.count("tracer_failures_retried")
        if r.timed_out:
            return Verdict.inconclusive("watchdog")
        if r.panicked:
            return Verdict.violated("mockery crashed", r.brief(), tags)
        snap = core.snapshot(root)
        h = core.tree_hash(snap)
        orders.add(write_order(r.events, root))
        if first is None:
            first = (r.exit, h, snap, r)
        elif r.exit != first[0] or (r.exit == 0 and h != first[1]):
            # (a failing run may legitimately leave a different subset of the outputs behind: only its status must agree)
            diff = core.snap_diff(first[2], snap)
            return Verdict.violated("run %d of the same inputs differs from run 1: exit %s vs %s, differing paths %s" % (
                run + 1, r.exit, first[0], sorted(diff)[:6]), {"run1": first[3].brief(600), "runN": r.brief(600), "config": case["files"][".mockery.yml"]}, tags)
        results.append(r.exit)
    ctx.count("runs", k)
    ctx.count("distinct_processing_orders_max", 0)
    with ctx.lock:
        ctx.extra["distinct_file_processing_orders_per_family"] = ctx.extra.get("distinct_file_processing_orders_per_family", []) + [len(orders)]
    obs = {"exit": first[0], "runs": k, "distinct_file_processing_orders": len(orders), "files_written": sum(1 for p in first[2] if p.endswith(".go")) - sum(1 for p in case["files"] if p.endswith(".go"))}
    if first[0] != 0:
        return Verdict.held(obs, nontrivial=len(orders) > 0, tags=tags + ["consistently-failing"])
    # idempotence: run again on top of the previous output (tree currently holds run k's output)
    base = core.snapshot(root)
    for rerun in range(3):
        r = core.run_mockery(ctx, cwd, [], env_extra=env_extra, timeout=600)
        if r.timed_out:
            return Verdict.inconclusive("watchdog")
        if r.panicked:
            return Verdict.violated("mockery crashed on re-run", r.brief(), tags)
        snap = core.snapshot(root)
        if r.exit != 0 or core.tree_hash(snap) != core.tree_hash(base):
            diff = core.snap_diff(base, snap)
            return Verdict.violated("re-run %d over its own output is not a fixpoint: exit %s, changed/added paths %s" % (rerun + 1, r.exit, sorted(diff)[:6]),
                                    dict(r.brief(800), config=case["files"][".mockery.yml"]), tags)
    ctx.count("reruns", 3)
    # history: the tree holds an older, longer generation of every output (the current output followed by more declarations)
    outs = [rel for rel in base if rel.endswith(".go") and rel not in case["files"]]
    for variant, tail in (("longer", b"\n// left over from an older, longer generation\nvar _ = 0\n"), ("shorter", None)):
        for rel in outs:
            pth = os.path.join(root, rel)
            data = open(pth, "rb").read()
            if tail is not None:
                data = data + tail
            else:
                cut = data.rfind(b"\nfunc ")   # drop the last function: an older, shorter generation that still parses up to there
                data = data[:cut + 1] if cut > 0 else data[: len(data) // 2]
            open(pth, "wb").write(data)
        r = core.run_mockery(ctx, cwd, [], env_extra=env_extra, timeout=600)
        if r.timed_out:
            return Verdict.inconclusive("watchdog")
        if r.panicked:
            return Verdict.violated("mockery crashed on a tree holding an older generation", r.brief(), tags)
        snap = core.snapshot(root)
        if r.exit != 0 and variant == "shorter":
            # a truncated older file inside the source package can make the package unloadable: not a history this check can assert on
            ctx.count("history_shorter_unloadable")
            reset_to = base
            for rel in outs:
                shutil.copyfile(os.path.join(pristine, rel), os.path.join(root, rel)) if os.path.exists(os.path.join(pristine, rel)) else None
            break
        if r.exit != 0 or core.tree_hash(snap) != core.tree_hash(base):
            diff = core.snap_diff(base, snap)
            return Verdict.violated("run over a tree holding an older, %s generation of its outputs does not reproduce the fresh output: exit %s, differing paths %s" % (
                variant, r.exit, sorted(diff)[:6]), dict(r.brief(800), config=case["files"][".mockery.yml"]), tags)
        ctx.count("history_runs")
    return Verdict.held(obs, tags=tags + ["idempotent", "history-independent"])


def body(ctx, replay=None):
    core.build_mockery(ctx)
    ctx.k_runs = 8 if ctx.tier == "quick" else 40
    ctx.rule = ("each case = a configuration family (3-8 source packages in two directory trees with same-named foreign imports, nested/overlapping recursive "
                "roots with different settings, explicit packages with configs lists and interface-level template-data, shared top-level template-data, four "
                "output placements incl. non-test files inside the source package and per-interface files, templated file names over .StructName) run "
                "k times from pristine copies at the same path and 3 more times over its own output; non-trivial = strace showed at least one output being "
                "written or the family failed consistently; distinct = case hash; the evidence lists the number of distinct file-processing orders per family")
    ctx.assumptions = ["each process start draws fresh map-iteration seeds (Go runtime)", "only equality within a family is asserted, nothing about the content"]
    if replay is not None:
        cases = [replay]
    else:
        n = 8 if ctx.tier == "quick" else 60
        cases = fixed_families() + [gen_family(ctx.rng, i) for i in range(n)]
    ctx.run_cases(cases, eval_family)
    return ctx.finish()


if __name__ == "__main__":
    core.main_wrapper("C06", "exploration", body)
