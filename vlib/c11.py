"""C11 — templated config values resolve correctly, to a fixpoint, and always terminate.

Plane P1: the real binary is run with generated template expressions in dir / filename /
pkgname / structname / template-schema under different source layouts, working directories and
ways of locating the config file; the monitor compares the resolved output directory (absolute),
file name, package clause and struct name with an independent evaluator (vlib/cfgmodel.py) and
bounds termination by CPU time (RLIMIT_CPU, load independent).
"""
import json
import os

from . import core, cfgmodel, probe
from .core import Verdict

MOD = "example.com/m"
CPU_LIMIT = 60

LAYOUTS = {
    "rootpkg": ("", "m"), "nested": ("a/b/c", "c"), "sub": ("svc/internal/store", "store"), "named": ("weird-dir", "goodname"),
    "initialism": ("net/url", "url"), "initialism2": ("enc/utf8", "utf8"),
}


def go_quote(s):
    return json.dumps(s)


class G:
    def __init__(self, rng, cwd_is_cfgdir):
        self.rng = rng
        self.cwd_is_cfgdir = cwd_is_cfgdir

    def ident_expr(self):
        """expression yielding identifier-safe text"""
        r = self.rng
        c = r.choice
        base = c(["{{.InterfaceName}}", "{{.SrcPackageName}}", "{{.Mock}}", "{{.InterfaceName | lower}}", "{{.InterfaceName | upper}}",
                  "{{.InterfaceName | firstLower}}", "{{.InterfaceName | firstUpper}}", "{{.SrcPackageName | firstUpper}}",
                  "{{.InterfaceName | snakecase}}", "{{ .InterfaceName | trimSuffix \"er\" }}", "{{ trimPrefix \"Sto\" .InterfaceName }}",
                  "{{ replaceAll \"e\" \"3\" .InterfaceName }}", "{{ .SrcPackagePath | base }}", "{{ .InterfaceFile | base | trimSuffix \".go\" }}",
                  "{{ .InterfaceDir | base | replaceAll \"-\" \"_\" }}", "{{if eq .Mock \"Mock\"}}Pub{{else}}priv{{end}}",
                  "{{ .Template | base | trimSuffix \".templ\" }}", "{{- .InterfaceName -}}", "{{ .SrcPackagePath | dir | base | replaceAll \".\" \"_\" }}",
                  "{{if hasPrefix \"St\" .InterfaceName}}S{{else if hasSuffix \"r\" .InterfaceName}}R{{else}}O{{end}}",
                  "{{ .InterfaceName | exported }}", "{{ .InterfaceName | trimSuffix \"Service\" }}", "{{ .InterfaceName | trimSuffix \"e\" }}",
                  "{{ .InterfaceName | trimPrefix \"S\" | trimSuffix \"ore\" }}", "{{ trimSuffix \"go\" (.InterfaceFile | base | replaceAll \".\" \"\") }}",
                  "{{ .InterfaceFile | base | trimSuffix \".go\" | trimPrefix \"c\" }}", "{{ \"url\" | exported }}", "{{ exported \"utf8\" }}",
                  "{{ \"Uri\" | exported }}{{ \"id\" | exported }}", "{{ .SrcPackageName | exported }}", "{{ \"uuid\" | exported }}{{ \"xss\" | exported }}"])
        return base

    def ident(self, n=None):
        r = self.rng
        parts = [r.choice(["x", "M", "mk", "T"])]
        for _ in range(n if n is not None else r.randint(1, 3)):
            parts.append(self.ident_expr() if r.random() < 0.75 else r.choice(["_", "Z", "q9"]))
        return "".join(parts)

    def nest(self, text, depth):
        """text that needs `depth` extra rounds: a string literal that itself contains template text"""
        for _ in range(depth):
            text = "{{ " + go_quote(text) + " }}"
        return text

    def dir_expr(self):
        r = self.rng
        opts = ["out/{{.SrcPackageName}}", "{{.InterfaceDir}}/mocks", "{{.InterfaceDir}}", "{{.ConfigDir}}/gen/{{.SrcPackageName}}",
                "{{.ConfigDir}}/gen/{{.InterfaceName | lower}}", "{{.InterfaceFile | dir}}/m_{{.InterfaceName | lower}}",
                "{{ .InterfaceDir | dir }}/sibling_{{.SrcPackageName}}", "{{.ConfigDir}}/x/../y/{{.SrcPackageName}}/./z",
                "{{ clean \"out//a/../b/\" }}/{{.SrcPackageName}}", "out/{{ .SrcPackagePath | replaceAll \"/\" \"_\" | replaceAll \".\" \"_\" }}",
                "out/{{.StructName}}"]
        if self.cwd_is_cfgdir:
            opts += ["{{.ConfigDir}}/rel/{{.InterfaceDirRelative}}", "out/{{.InterfaceDirRelative}}/mocks"]
        return r.choice(opts)


def gen_case(rng, i):
    layout = rng.choice(sorted(LAYOUTS))
    cwdmode = rng.choice(["cfgdir", "cfgdir", "cfgdir-symlink", "subdir", "subdir-nearest", "other-flag", "other-env"])
    g = G(rng, cwdmode in ("cfgdir", "cfgdir-symlink"))
    exported = rng.random() < 0.7
    iname = rng.choice(["Store", "Reader", "HTTPDoer", "Worker", "UserService", "Catalogue", "Uri", "Utf8"]) if exported else rng.choice(["store", "reader", "httpDoer", "cacheService", "url", "uri", "_Hidden", "_plain", "élan"])
    exprs = {}
    kind = rng.choice(["plain", "plain", "chain", "deep", "selfref", "schema", "defaults"])
    if kind != "defaults":
        exprs["structname"] = g.ident()
        if rng.random() < 0.8:
            exprs["filename"] = rng.choice(["f_{{.StructName}}.go", "{{.InterfaceName | snakecase}}_mock.go", g.ident() + "_test.go", "mock_{{.InterfaceName}}.go"])
        if rng.random() < 0.8:
            exprs["dir"] = g.dir_expr()
            while layout == "rootpkg" and "| dir }}/sibling" in exprs["dir"]:
                exprs["dir"] = g.dir_expr()  # would leave the module: no go.mod above the output directory
        if rng.random() < 0.7:
            exprs["pkgname"] = rng.choice(["mocks", "{{.SrcPackageName}}", "{{.SrcPackageName}}mocks", "mock_{{.SrcPackageName | lower}}",
                                           "{{ .InterfaceName | lower }}pkg", "{{if eq .Mock \"Mock\"}}pubpkg{{else}}privpkg{{end}}"])
    if kind == "chain":
        exprs["filename"] = "c_{{.StructName}}_{{.StructName | lower}}.go"
        exprs["dir"] = "out/{{.StructName}}/{{.Template | base | trimSuffix \".templ\"}}"
    if kind == "deep":
        d = rng.randint(1, 6)
        exprs[rng.choice(["structname", "filename", "pkgname"])] = g.nest(rng.choice(["Deep{{.InterfaceName}}", "d{{.SrcPackageName}}", "{{.Mock}}x"]), d) + ("" if rng.random() < 0.5 else "Z")
        if "filename" in exprs and not exprs["filename"].endswith(".go"):
            exprs["filename"] += ".go"
    if kind == "selfref":
        which = rng.choice(["grow", "double", "stable-literal", "via-filename"])
        if which == "grow":
            exprs["structname"] = "A{{.StructName}}"
        elif which == "double":
            exprs["structname"] = "{{.StructName}}b{{.StructName}}"
        elif which == "stable-literal":
            exprs["structname"] = "S{{ \"{{\" }}x"   # contains a literal {{ after one round -> next round is a parse error or stable text
        else:
            exprs["structname"] = "B{{.StructName}}"
            exprs["filename"] = "f_{{.StructName}}.go"
    if kind == "schema":
        exprs["template-schema"] = rng.choice(["file://{{.ConfigDir}}/schemas/{{.SrcPackageName}}.json",
                                               "{{.Template}}.custom.json", "file://{{.InterfaceDir}}/schema.json"])
    # the declaring file: its name matters to .InterfaceFile; a //line directive (generated sources: goyacc, cgo, protoc plugins) must not change it
    return {"kind": "expr", "i": i, "layout": layout, "cwd": cwdmode, "cfgname": rng.choice([".mockery.yml", ".mockery.yaml"]),
            "iface": iname, "exprs": exprs, "what": kind, "srcfile": rng.choice(["iface.go", "iface.go", "catalog.go", "billing.go", "go.go", "api_gogo.go"]),
            "linedir": rng.choice([None, None, None, "gen/grammar.y:9", "/abs/elsewhere/x.go:1", "other.go:3"]), "linepos": rng.choice(["type", "package"])}


KF_IDR = {"kind": "expr", "i": -1, "layout": "nested", "cwd": "subdir", "cfgname": ".mockery.yml", "iface": "Store", "what": "kf-interfacedirrelative",
          "exprs": {"structname": "MockStore", "dir": "{{.ConfigDir}}/rel/{{.InterfaceDirRelative}}", "filename": "m.go", "pkgname": "mocks"}}
FIXED = [
    # witness of the repaired ConfigDir defect: config found by upward search from a sub-directory
    {"kind": "expr", "i": -2, "layout": "sub", "cwd": "subdir", "cfgname": ".mockery.yml", "iface": "Store", "what": "fixed-configdir",
     "exprs": {"structname": "MockStore", "dir": "{{.ConfigDir}}/gen/{{.SrcPackageName}}", "filename": "m.go", "pkgname": "mocks"}},
    {"kind": "expr", "i": -3, "layout": "rootpkg", "cwd": "other-env", "cfgname": ".mockery.yaml", "iface": "reader", "what": "env-config",
     "exprs": {"structname": "{{.Mock}}{{.InterfaceName | firstUpper}}", "dir": "{{.ConfigDir}}/gen", "filename": "{{.InterfaceName}}.go", "pkgname": "{{.SrcPackageName}}x"}},
    KF_IDR,
    {"kind": "expr", "i": -13, "layout": "nested", "cwd": "cfgdir-symlink", "cfgname": ".mockery.yml", "iface": "Store", "what": "cwd-through-symlink", "srcfile": "iface.go", "linedir": None,
     "exprs": {"structname": "MockStore", "dir": "mocks/{{.InterfaceDirRelative}}", "filename": "m.go", "pkgname": "mocks"}},
    {"kind": "expr", "i": -14, "layout": "sub", "cwd": "cfgdir-symlink", "cfgname": ".mockery.yaml", "iface": "reader", "what": "cwd-through-symlink", "srcfile": "iface.go", "linedir": None,
     "exprs": {"structname": "{{.Mock}}R", "dir": "{{.ConfigDir}}/gen/{{.InterfaceDirRelative}}", "filename": "{{.InterfaceDir | base}}_m.go", "pkgname": "gen"}},
    # self-references inside a string literal: the value is a cycle although no single round makes it longer than the literal allows to see
    {"kind": "expr", "i": -11, "layout": "nested", "cwd": "cfgdir", "cfgname": ".mockery.yml", "iface": "Store", "what": "cycle-through-literal", "srcfile": "iface.go", "linedir": None,
     "exprs": {"structname": "{{\"{{.StructName}}{{.StructName}}\"}}", "dir": "out", "filename": "m.go", "pkgname": "m"}},
    {"kind": "expr", "i": -12, "layout": "sub", "cwd": "cfgdir", "cfgname": ".mockery.yml", "iface": "Store", "what": "cycle-through-literal", "srcfile": "iface.go", "linedir": None,
     "exprs": {"structname": "{{\"{{.StructName}}\"}}", "dir": "out", "filename": "m.go", "pkgname": "m"}},
    {"kind": "expr", "i": -6, "layout": "initialism", "cwd": "cfgdir", "cfgname": ".mockery.yml", "iface": "Uri", "what": "initialisms", "srcfile": "iface.go", "linedir": None,
     "exprs": {"structname": "M{{ .InterfaceName | exported }}{{ \"utf8\" | exported }}{{ \"id\" | exported }}", "dir": "out/{{ .SrcPackageName | exported }}", "filename": "m.go", "pkgname": "m"}},
    {"kind": "expr", "i": -10, "layout": "nested", "cwd": "subdir-nearest", "cfgname": ".mockery.yml", "iface": "Store", "what": "nearest-config-wins", "srcfile": "iface.go", "linedir": None,
     "exprs": {"structname": "MockStore", "dir": "{{.ConfigDir}}/gen/{{.SrcPackageName}}", "filename": "m.go", "pkgname": "mocks"}},
    {"kind": "expr", "i": -9, "layout": "sub", "cwd": "cfgdir", "cfgname": ".mockery.yml", "iface": "Store", "what": "line-directive", "srcfile": "parser_gen.go", "linedir": "grammar/expr.y:1", "linepos": "package",
     "exprs": {"structname": "MockStore", "dir": "{{.InterfaceDir}}", "filename": "mock_{{ .InterfaceFile | base | trimSuffix \".go\" }}_test.go", "pkgname": "store"}},
    {"kind": "expr", "i": -7, "layout": "nested", "cwd": "cfgdir", "cfgname": ".mockery.yml", "iface": "_Hidden", "what": "mock-by-exportedness", "srcfile": "iface.go", "linedir": None,
     "exprs": {"structname": "{{.Mock}}{{.InterfaceName}}", "dir": "out/{{.Mock}}", "filename": "{{.Mock}}_x.go", "pkgname": "m"}},
    {"kind": "expr", "i": -8, "layout": "sub", "cwd": "cfgdir", "cfgname": ".mockery.yml", "iface": "élan", "what": "mock-by-exportedness", "srcfile": "iface.go", "linedir": None,
     "exprs": {"structname": "{{.Mock}}X", "dir": "out", "filename": "{{.Mock}}_y.go", "pkgname": "m"}},
    {"kind": "expr", "i": -4, "layout": "nested", "cwd": "cfgdir", "cfgname": ".mockery.yml", "iface": "UserService", "what": "file-and-suffix", "srcfile": "catalog.go", "linedir": None,
     "exprs": {"structname": "M{{ .InterfaceName | trimSuffix \"Service\" }}", "dir": "{{.InterfaceFile | dir}}/m", "filename": "{{ .InterfaceFile | base | trimSuffix \".go\" }}_mock.go", "pkgname": "m"}},
    {"kind": "expr", "i": -15, "layout": "sub", "cwd": "cfgdir", "cfgname": ".mockery.yml", "iface": "Store", "what": "cgo-declaring-file", "srcfile": "native.go", "linedir": None, "cgo": "declaring",
     "exprs": {"structname": "MockStore", "dir": "{{.InterfaceDir}}/m", "filename": "{{ .InterfaceFile | base | trimSuffix \".go\" }}_mock.go", "pkgname": "m"}},
    {"kind": "expr", "i": -16, "layout": "nested", "cwd": "cfgdir", "cfgname": ".mockery.yml", "iface": "Store", "what": "cgo-sibling-file", "srcfile": "catalog.go", "linedir": None, "cgo": "sibling",
     "exprs": {"structname": "MockStore", "dir": "{{.InterfaceFile | dir}}/m", "filename": "{{ .InterfaceFile | base | trimSuffix \".go\" }}_mock.go", "pkgname": "m"}},
    {"kind": "expr", "i": -5, "layout": "sub", "cwd": "cfgdir", "cfgname": ".mockery.yml", "iface": "Store", "what": "line-directive", "srcfile": "billing.go", "linedir": "gen/grammar.y:9",
     "exprs": {"structname": "MockStore", "dir": "{{.InterfaceDir}}/m", "filename": "{{ .InterfaceFile | base | trimSuffix \".go\" }}_mock.go", "pkgname": "m"}},
]


def eval_case(ctx, case):
    if case["kind"] == "schema2":
        return eval_schema2(ctx, case)
    if case["kind"] == "configs2":
        return eval_configs2(ctx, case)
    reldir, pkgname = LAYOUTS[case["layout"]]
    iname = case["iface"]
    srcfile = case.get("srcfile", "iface.go")
    linedir = ("//line %s\n" % case["linedir"]) if case.get("linedir") else ""
    # the //line directive precedes the interface declaration, or the package clause itself (goyacc / protoc-gen style headers)
    at_pkg = case.get("linepos") == "package"
    files = {os.path.join(reldir, srcfile): "%spackage %s\n\n%stype %s interface{ Do(x int) error }\n" % (linedir if at_pkg else "", pkgname, "" if at_pkg else linedir, iname),
             os.path.join(reldir, "aaa_first.go"): "package %s\n\nvar _ = 0\n" % pkgname, os.path.join(reldir, "zzz_last.go"): "package %s\n\nvar _ = 1\n" % pkgname,
             "cwdsub/deeper/keep.go": "package deeper\n", "elsewhere/keep.go": "package elsewhere\n",
             "probeA.templ": probe.probe_template("A")}
    if case.get("cgo"):
        # one file of the package imports "C" (compiled from a generated copy that names its source in a line directive): the declaring file
        # itself, or a sibling that sorts before it
        tgt = os.path.join(reldir, srcfile if case["cgo"] == "declaring" else "aaa_first.go")
        files[tgt] = files[tgt].replace("package %s\n" % pkgname, "package %s\n\n// #include <stdlib.h>\nimport \"C\"\n\nfunc Rand() int { return int(C.rand()) }\n" % pkgname, 1)
    root = core.scratch_module(ctx, files)
    srcpath = MOD + ("/" + reldir if reldir else "")
    exprs = dict(case["exprs"])
    tmpl = "file://" + os.path.join(root, "probeA.templ")
    cfg = {"template": tmpl, "formatter": "noop", "require-template-schema-exists": False,
           "packages": {srcpath: {"interfaces": {iname: None}}}}
    cfg.update(exprs)
    # working directory / config location
    cfgpath = os.path.join(root, case["cfgname"])
    args, env = [], {}
    base = root
    if case["cwd"] == "cfgdir":
        cwd = root
    elif case["cwd"] == "cfgdir-symlink":
        # the working (= config) directory is reached through a symbolic link and $PWD says so: go list and os.Getwd report paths below the link,
        # and every documented variable is bound as for a real directory of that name
        base = root.rstrip("/") + "-link"
        if not os.path.islink(base):
            os.symlink(root, base)
        cwd = base
        cfgpath = os.path.join(base, case["cfgname"])
        env = {"PWD": base}
    elif case["cwd"] == "subdir":
        cwd = os.path.join(root, "cwdsub", "deeper")
    elif case["cwd"] == "subdir-nearest":
        # two configs on the way up: the nearest one (cwdsub/) is the one in force, the one in the module root is a decoy that cannot work
        cwd = os.path.join(root, "cwdsub", "deeper")
        cfgpath = os.path.join(root, "cwdsub", case["cfgname"])
        with open(os.path.join(root, ".mockery.yaml" if case["cfgname"].endswith(".yml") else ".mockery.yml"), "w") as f:
            f.write(json.dumps({"all": True, "packages": {MOD + "/does/not/exist": None}}))
    elif case["cwd"] == "other-flag":
        cwd = os.path.join(root, "elsewhere")
        os.makedirs(os.path.join(root, "conf"))
        cfgpath = os.path.join(root, "conf", "my.yml")
        args = ["--config", "../conf/my.yml"]
    else:
        cwd = os.path.join(root, "elsewhere")
        os.makedirs(os.path.join(root, "conf"))
        cfgpath = os.path.join(root, "conf", "my.yml")
        env = {"MOCKERY_CONFIG": cfgpath}
    cfgdir = os.path.dirname(cfgpath)
    ifacedir = os.path.join(base, reldir) if reldir else base
    data = {"ConfigDir": cfgdir, "InterfaceDir": ifacedir, "InterfaceDirRelative": os.path.relpath(ifacedir, cfgdir),
            "InterfaceFile": os.path.join(ifacedir, srcfile), "InterfaceName": iname, "Mock": "Mock" if iname[0].isupper() else "mock",
            "SrcPackageName": pkgname, "SrcPackagePath": srcpath, "Template": tmpl}
    eff = cfgmodel.resolve([exprs])
    data["StructName"] = eff["structname"]
    expect = {}
    diverges = False
    for k in ("dir", "filename", "pkgname", "structname", "template-schema"):
        try:
            expect[k] = cfgmodel.fixpoint(eff[k], data)
        except cfgmodel.Diverges:
            diverges = True
        except cfgmodel.TemplateError as e:
            expect[k] = ("error", str(e))
    schema_case = "template-schema" in exprs
    if schema_case and not diverges and not isinstance(expect.get("template-schema"), tuple):
        sp = expect["template-schema"]
        assert sp.startswith("file://")
        sp = sp[len("file://"):]
        os.makedirs(os.path.dirname(sp), exist_ok=True)
        with open(sp, "w") as f:
            f.write(json.dumps({"type": "object", "required": ["must"]}))
        cfg["require-template-schema-exists"] = True
        cfg["template-data"] = {"must": True}
    with open(cfgpath, "w") as f:
        f.write(json.dumps(cfg))
    before = core.snapshot(root)
    r = core.run_mockery(ctx, cwd, args, env_extra=env, timeout=900, cpu_limit=CPU_LIMIT)
    tags = ["what=" + case["what"], "cwd=" + case["cwd"], "layout=" + case["layout"], "srcfile=" + srcfile] + (["line-directive"] if linedir else [])
    obs = {"exit": r.exit, "exprs": exprs, "cwd": os.path.relpath(cwd, root), "config": os.path.relpath(cfgpath, root)}
    if r.cpu_killed:
        return Verdict.violated("evaluation did not terminate within %d CPU-seconds" % CPU_LIMIT, dict(obs, **r.brief()), tags)
    if r.timed_out:
        return Verdict.inconclusive("wall-clock watchdog")
    if r.panicked:
        return Verdict.violated("mockery crashed", dict(obs, **r.brief()), tags)
    errs = [k for k, v in expect.items() if isinstance(v, tuple)]
    if diverges or errs:
        if r.exit is not None and r.exit < 0:
            # killed by a signal (out of memory, CPU limit): the evaluation did not end by itself with the diagnostic it owes
            return Verdict.violated("a templated value never stabilises (%s): the run did not end by itself but was killed (exit %s)" % ("diverges" if diverges else errs, r.exit),
                                    dict(obs, **r.brief()), tags)
        if r.exit == 0:
            return Verdict.violated("a templated value never stabilises / does not evaluate (%s) but mockery exited 0" %
                                    ("diverges" if diverges else errs), dict(obs, **r.brief()), tags)
        after = core.snapshot(root)
        new = [k for k in core.snap_diff(before, after) if k.endswith(".go")]
        if new:
            return Verdict.violated("diverging templated value: run failed but wrote %s (truncated/intermediate expansion)" % new, obs, tags)
        return Verdict.held(dict(obs, expected="error"), tags=tags + ["diverges"])
    want_path = os.path.realpath(os.path.normpath(os.path.join(cwd, expect["dir"], expect["filename"])))
    obs["model"] = {"path": os.path.relpath(want_path, root), "pkgname": expect["pkgname"], "structname": expect["structname"]}
    if r.exit != 0:
        return Verdict.violated("valid templated values (model: %s) but mockery exited %s" % (obs["model"], r.exit),
                                dict(obs, kf_key=kf_key(case), **r.brief()), tags)
    after = core.snapshot(root)
    new = sorted(k for k, v in core.snap_diff(before, after).items() if v[1] is not None and v[1][0] == "file")
    obs["written"] = new
    got = [os.path.realpath(os.path.join(root, n)) for n in new]
    if got != [want_path]:
        return Verdict.violated("output written to %s, model says %s" % (new, os.path.relpath(want_path, root)), dict(obs, kf_key=kf_key(case)), tags)
    pr = probe.parse_file(want_path)
    if pr is None or not pr["ifaces"]:
        return Verdict.violated("output file does not contain the probe's data", obs, tags)
    if pr["file"]["pkgname"] != expect["pkgname"] or pr["package"] != expect["pkgname"]:
        return Verdict.violated("package name %r / clause %r, model %r" % (pr["file"]["pkgname"], pr["package"], expect["pkgname"]), obs, tags)
    if pr["ifaces"][0]["struct"] != expect["structname"]:
        return Verdict.violated("struct name %r, model %r" % (pr["ifaces"][0]["struct"], expect["structname"]), obs, tags)
    return Verdict.held(obs, tags=tags)


SCHEMA2_EXPRS = ["file://{{.ConfigDir}}/schemas/{{.InterfaceName}}.schema.json", "file://{{.ConfigDir}}/s/{{.Mock}}{{.InterfaceName | lower}}.json",
                 "file://{{.InterfaceFile | dir}}/{{.InterfaceFile | base | trimSuffix \".go\"}}.schema.json", "file://{{.ConfigDir}}/s/{{.StructName}}.json",
                 "file://{{.ConfigDir}}/s/{{.SrcPackageName}}_{{.InterfaceName | snakecase}}.json"]


CONFIGS2_EXPRS = [{"filename": "{{.StructName}}.go"}, {"filename": "{{.StructName}}_{{.Template | base | trimSuffix \".templ\"}}.go"},
                  {"dir": "out/{{.Template | base | trimSuffix \".templ\"}}", "filename": "m_{{.StructName}}.go"},
                  {"dir": "out/{{.StructName}}", "filename": "{{.InterfaceName}}.go"}]


def eval_configs2(ctx, case):
    """one interface with several `configs` entries that differ in structname and template: the entry-dependent variables (StructName, Template) are bound
    per entry, the interface-dependent ones are the same for all"""
    reldir, pkgname = LAYOUTS[case["layout"]]
    n = case["iface"]
    files = {"probeA.templ": probe.probe_template("A"), "probeB.templ": probe.probe_template("B"), os.path.join(reldir, "src.go"): "package %s\n\ntype %s interface{ Do(x int) error }\n" % (pkgname, n)}
    root = core.scratch_module(ctx, files)
    srcpath = MOD + ("/" + reldir if reldir else "")
    tA, tB = "file://" + os.path.join(root, "probeA.templ"), "file://" + os.path.join(root, "probeB.templ")
    entries = [{"structname": "AlphaStrict", "template": tA}, {"structname": "alphaLoose", "template": tB}, {"structname": "ThirdOne"}]
    if case["order"] == "b-first":
        entries = [entries[1], entries[0], entries[2]]
    cfg = {"template": tA, "formatter": "noop", "dir": "out", "pkgname": "mocks", "require-template-schema-exists": False,
           "packages": {srcpath: {"interfaces": {n: {"configs": entries}}}}}
    cfg.update(case["exprs"])
    ifacedir = os.path.join(root, reldir) if reldir else root
    want = {}
    for e in entries:
        data = {"ConfigDir": root, "InterfaceDir": ifacedir, "InterfaceDirRelative": os.path.relpath(ifacedir, root), "InterfaceFile": os.path.join(ifacedir, "src.go"),
                "InterfaceName": n, "Mock": "Mock" if n[0].isupper() else "mock", "SrcPackageName": pkgname, "SrcPackagePath": srcpath, "Template": e.get("template", tA)}
        data["StructName"] = cfgmodel.fixpoint(e["structname"], data)
        d = cfgmodel.fixpoint(cfg["dir"], dict(data))
        f = cfgmodel.fixpoint(cfg["filename"], dict(data))
        want[os.path.normpath(os.path.join(d, f))] = (data["StructName"], "B" if e.get("template") == tB else "A")
    with open(os.path.join(root, ".mockery.yml"), "w") as fh:
        fh.write(json.dumps(cfg))
    before = core.snapshot(root)
    r = core.run_mockery(ctx, root, [], timeout=600, cpu_limit=CPU_LIMIT)
    tags = ["what=configs-entries-differ-in-structname-and-template", "layout=" + case["layout"], "order=" + case["order"]]
    obs = {"exit": r.exit, "exprs": case["exprs"], "model": {k: list(v) for k, v in want.items()}}
    if r.timed_out:
        return Verdict.inconclusive("watchdog")
    if r.panicked:
        return Verdict.violated("mockery crashed", dict(obs, **r.brief()), tags)
    if len(want) != len(entries):
        return Verdict.skipped("expressions do not separate the entries")
    if r.exit != 0:
        return Verdict.violated("valid templated values for %d configs entries (model: %s) but mockery exited %s" % (len(entries), sorted(want), r.exit), dict(obs, **r.brief()), tags)
    after = core.snapshot(root)
    new = sorted(k for k, v in core.snap_diff(before, after).items() if v[1] is not None and v[1][0] == "file")
    obs["written"] = new
    if new != sorted(want):
        return Verdict.violated("outputs written to %s, model says %s" % (new, sorted(want)), obs, tags)
    for path, (sn, pid) in want.items():
        pr = probe.parse_file(os.path.join(root, path))
        if pr is None or len(pr["ifaces"]) != 1:
            return Verdict.violated("output %s does not hold exactly one mock of the probe" % path, obs, tags)
        if pr["ifaces"][0]["struct"] != sn or pr["id"] != pid:
            return Verdict.violated("output %s holds struct %r rendered by template %s, model says %r by %s" % (path, pr["ifaces"][0]["struct"], pr["id"], sn, pid), obs, tags)
    return Verdict.held(obs, tags=tags)


def eval_schema2(ctx, case):
    """two interfaces of one package selected by all:true (no entries of their own); the schema location names the interface"""
    reldir, pkgname = LAYOUTS[case["layout"]]
    names = case["ifaces"]
    srcfiles = ["first.go", "second.go"]
    files = {"probeA.templ": probe.probe_template("A")}
    for n, sf in zip(names, srcfiles):
        files[os.path.join(reldir, sf)] = "package %s\n\ntype %s interface{ Do(x int) error }\n" % (pkgname, n)
    root = core.scratch_module(ctx, files)
    srcpath = MOD + ("/" + reldir if reldir else "")
    tmpl = "file://" + os.path.join(root, "probeA.templ")
    settings = {"template-schema": case["expr"], "require-template-schema-exists": True, "template-data": {"must": True}}
    cfg = {"template": tmpl, "formatter": "noop", "dir": "out", "pkgname": "mocks", "filename": "m_{{.InterfaceName}}.go", "packages": {srcpath: {"config": {"all": True}}}}
    (cfg if case["level"] == "root" else cfg["packages"][srcpath]["config"]).update(settings)
    ifacedir = os.path.join(root, reldir) if reldir else root
    want_paths = []
    for k, (n, sf) in enumerate(zip(names, srcfiles)):
        data = {"ConfigDir": root, "InterfaceDir": ifacedir, "InterfaceDirRelative": os.path.relpath(ifacedir, root), "InterfaceFile": os.path.join(ifacedir, sf),
                "InterfaceName": n, "Mock": "Mock" if n[0].isupper() else "mock", "SrcPackageName": pkgname, "SrcPackagePath": srcpath, "Template": tmpl}
        data["StructName"] = cfgmodel.fixpoint(cfgmodel.DEFAULTS["structname"], data)
        sp = cfgmodel.fixpoint(case["expr"], data)[len("file://"):]
        want_paths.append(sp)
        os.makedirs(os.path.dirname(sp), exist_ok=True)
        with open(sp, "w") as f:
            f.write(json.dumps({"type": "object", "required": ["never-there" if case["reject"] == k else "must"]}))
    if len(set(want_paths)) != 2:
        return Verdict.skipped("expression does not separate the two interfaces")
    with open(os.path.join(root, ".mockery.yml"), "w") as f:
        f.write(json.dumps(cfg))
    r = core.run_mockery(ctx, root, [], timeout=600, cpu_limit=CPU_LIMIT)
    tags = ["what=schema-per-interface", "level=" + case["level"], "layout=" + case["layout"], "reject=%s" % case["reject"]]
    obs = {"exit": r.exit, "expr": case["expr"], "schemas": [os.path.relpath(p, root) for p in want_paths], "rejecting": case["reject"]}
    if r.timed_out:
        return Verdict.inconclusive("watchdog")
    if r.panicked:
        return Verdict.violated("mockery crashed", dict(obs, **r.brief()), tags)
    written = sorted(fn for fn in (os.listdir(os.path.join(root, "out")) if os.path.isdir(os.path.join(root, "out")) else []))
    obs["written"] = written
    if case["reject"] is None:
        if r.exit != 0 or written != sorted("m_%s.go" % n for n in names):
            return Verdict.violated("each interface's own schema accepts the data, but exit %s and files %s" % (r.exit, written), dict(obs, **r.brief()), tags)
    else:
        bad = "m_%s.go" % names[case["reject"]]
        if r.exit == 0 or bad in written:
            return Verdict.violated("the schema resolved for %s (%s) rejects the data, but exit %s and files %s (another interface's schema location was used)" % (
                names[case["reject"]], obs["schemas"][case["reject"]], r.exit, written), dict(obs, **r.brief()), tags)
    return Verdict.held(obs, tags=tags)


def kf_key(case):
    if "InterfaceDirRelative" in json.dumps(case["exprs"]) and case["cwd"] not in ("cfgdir", "cfgdir-symlink"):
        return "InterfaceDirRelative-relative-to-cwd"
    return None


def body(ctx, replay=None):
    core.build_mockery(ctx)
    ctx.rule = ("each case = generated expressions (literals, documented variables, pipelines through lower/upper/firstLower/firstUpper/replaceAll/trimPrefix/"
                "trimSuffix/base/dir/clean/snakecase/exported, if/else on .Mock and hasPrefix, references through .StructName/.Template, string literals "
                "nested 1-6 levels that need that many rounds, self-references that grow) in dir/filename/pkgname/structname/template-schema x layout "
                "(root package, nested, sub-package, package name != directory) x exportedness x cwd {config dir, sub-directory with upward search, other "
                "directory with --config, with MOCKERY_CONFIG} x .yml/.yaml; non-trivial = every case; distinct = case hash")
    ctx.assumptions = ["bindings are the documented ones (struct comments of config.TemplateData)", "chains needing more than 10 rounds are not generated",
                       "exponentially growing self-references are limited to doubling", "InterfaceDirRelative is only generated when cwd == ConfigDir (known finding otherwise)"]
    if replay is not None:
        cases = [replay]
    else:
        n = 140 if ctx.tier == "quick" else 1500
        cases = list(FIXED) + [gen_case(ctx.rng, i) for i in range(n)]
        for j in range(len(SCHEMA2_EXPRS) * (3 if ctx.tier == "quick" else 12)):
            cases.append({"kind": "schema2", "i": 50000 + j, "expr": SCHEMA2_EXPRS[j % len(SCHEMA2_EXPRS)], "level": ["root", "pkg"][(j // len(SCHEMA2_EXPRS)) % 2],
                          "layout": ["nested", "rootpkg", "sub", "named"][j % 4], "reject": [None, 0, 1][(j // len(SCHEMA2_EXPRS)) % 3],
                          "ifaces": [["Alpha", "Beta"], ["store", "Reader"], ["Zeta", "Eta"]][j % 3]})
        for j in range(len(CONFIGS2_EXPRS) * (2 if ctx.tier == "quick" else 8)):
            cases.append({"kind": "configs2", "i": 60000 + j, "exprs": CONFIGS2_EXPRS[j % len(CONFIGS2_EXPRS)], "layout": ["nested", "rootpkg", "sub", "named"][(j // 2) % 4],
                          "order": ["a-first", "b-first"][(j // len(CONFIGS2_EXPRS)) % 2], "iface": ["Store", "reader", "URLCache"][j % 3]})
    ctx.run_cases(cases, eval_case)
    return ctx.finish()


if __name__ == "__main__":
    core.main_wrapper("C11", "exploration", body)
