"""C10 — output files are written safely: no stray writes, no clobbering, all-or-nothing.

Plane P1 + syscall monitor. Every run is traced with `strace -f`; the monitor sees every
write-intent open, rename, unlink, truncate, mkdir, chmod under the scratch root in order, plus
complete before/after content snapshots. Fault enumeration: one failure injected at each
pipeline stage (template retrieval incl. HTTP 404, schema retrieval, schema validation at file
and interface level, template parse, template execution, formatting) on any one of 1-5 output
files, over initial states of each output path and force-file-write settings at several levels.
"""
import copy
import hashlib
import json
import os
import shutil

from . import core, cfgmodel
from .core import Verdict
from .c12 import Server

MOD = "example.com/m"
ALL_FILES_STAGES = ["template-missing-all-files", "template-404-all-files"]   # every file of package p shares one template that cannot be retrieved
STAGES = ["template-truncated", "template-missing", "template-404", "template-missing-schema-not-required", "template-404-schema-not-required", "schema-missing", "schema-invalid-iface", "schema-invalid-file", "template-parse", "template-exec", "format"]
STATES = ["absent", "prev-long", "prev-short", "user", "user-marker", "dir", "dirlink"]   # dirlink: occupied by a symbolic link to a directory
DIRLIKE = ("dir", "dirlink")

BYSTANDERS = {
    "p/notes.txt": "user notes\n", "p/.hidden": "dot\n", "other/mocks_test.go": "package other\n\n// hand written, looks like an output\n",
    "out/README.md": "# mocks\n", "out/sibling/m_I1.go": "package sibling\n\n// decoy with an output's name in a sibling directory\n",
    ".config/tool.yml": "a: 1\n", "p/sub/keep.go": "package sub\n",
}


def src(n):
    lines = ["package p", "", "import \"io\"", ""]
    for i in range(1, n + 1):
        lines.append("type I%d interface {\n\tDo%d(r io.Reader, xs ...int) (int, error)\n\tName%d() string\n}\n" % (i, i, i))
    return "\n".join(lines)


def gen_case(rng, i):
    n = rng.choice([1, 2, 3, 3, 4, 5])
    files = []
    for k in range(1, n + 1):
        files.append({"state": rng.choice(STATES + ["absent", "absent"]), "force": rng.choice([None, None, True, False]),
                      "template": rng.choice(["testify", "testify", "matryer"])})
    inj = None
    if rng.random() < 0.7:
        inj = {"stage": rng.choice(STAGES), "file": rng.randint(1, n)}
    if inj and n >= 2 and rng.random() < 0.12:
        inj = {"stage": rng.choice(ALL_FILES_STAGES), "file": 1}
    share = n >= 2 and rng.random() < 0.3
    if share and inj and rng.random() < 0.6:
        # a violation on one of several mocks sharing a file, first / middle / last in source order
        inj = {"stage": rng.choice(["schema-invalid-iface", "schema-invalid-iface", "template-exec", "template-parse"]), "file": rng.choice([1, 1, n, rng.randint(1, n)])}
    return {"kind": "write", "i": i, "n": n, "files": files, "share": share, "struct_in_filename": rng.random() < 0.2, "filename_subdir": rng.random() < 0.2, "line_directive": rng.random() < 0.12, "env_force": rng.choice([None, None, True, False]), "root_force": rng.choice([None, True, False, True]),
            "pkg_force": rng.choice([None, None, True, False]), "inj": inj, "formatter": rng.choice(["goimports", "gofmt", "noop"])}


def build(case, root, server, with_injection, all_force):
    """returns (files dict, cfg, outputs {k: relpath})"""
    n = case["n"]
    files = {"p/p.go": src(n), "p2/q.go": "package p2\n\ntype Q interface{ Query(s string) error }\n"}
    odir = "out/{{.SrcPackageName}}"
    oprefix = {"p": "out/p/", "p2": "out/p2/"}
    if case.get("line_directive"):
        # generated sources (goyacc, protoc plug-ins) start with a //line directive naming another file: the designated directory is still
        # derived from the file that really declares the interface
        files["p/p.go"] = "//line ../elsewhere/grammar/p.y:1\n" + files["p/p.go"]
        files["p2/q.go"] = "//line /abs/nowhere/q.y:7\n" + files["p2/q.go"]
        odir = "{{.InterfaceDir}}/gen"
        oprefix = {"p": "p/gen/", "p2": "p2/gen/"}
    fdir = "gen/" if case.get("filename_subdir") else ""   # a filename with a directory component: the designated path is Clean(dir/filename)
    # "struct_in_filename": the file name goes through {{.StructName}}, whose own default is templated (a second rendering round next to constant parameters)
    sname = (lambda n: "Mock" + n) if case.get("struct_in_filename") else (lambda n: n)
    cfg = {"dir": odir, "filename": fdir + ("m_{{.StructName}}.go" if case.get("struct_in_filename") else "m_{{.InterfaceName}}.go"), "pkgname": "mocks", "formatter": case["formatter"]}
    if all_force:
        cfg["force-file-write"] = True
    elif case["root_force"] is not None:
        cfg["force-file-write"] = case["root_force"]
    p = {"config": {}, "interfaces": {}}
    if not all_force and case["pkg_force"] is not None:
        p["config"]["force-file-write"] = case["pkg_force"]
    inj = case["inj"] if with_injection else None
    outputs = {}
    share = bool(case.get("share"))
    if share:
        p["config"]["filename"] = fdir + "m_all.go"   # all mocks of package p in one output file
    for k in range(1, n + 1):
        f = case["files"][0 if share else k - 1]
        ic = {"template": f["template"]}
        if not all_force and f["force"] is not None and not share:
            ic["force-file-write"] = f["force"]
        if inj and inj["stage"] in ALL_FILES_STAGES:
            ic["template"] = "file://tm/missing.templ" if inj["stage"].startswith("template-missing") else "http://127.0.0.1:%d/nope/%d/t.templ" % (server.http, case["i"])
            ic["require-template-schema-exists"] = False
            ic["formatter"] = "gofmt" if case["formatter"] == "goimports" else case["formatter"]   # a formatter that would accept an empty file
        elif case["inj"] and case["inj"]["stage"] == "schema-invalid-shared-template":
            # every file of the package is rendered by one custom template with a schema beside it; the others waive the schema (and carry data it forbids),
            # the injected one requires it (the default) and carries data it rejects: that file - and only that file - must fail, whichever file is rendered first
            files["tm/shared.templ"] = "package {{.PkgName}}\n\n{{range .Interfaces}}type {{.StructName}} struct{}\n{{end}}"
            files["tm/shared.templ.schema.json"] = json.dumps({"$schema": "http://json-schema.org/draft-07/schema#", "type": "object", "additionalProperties": False,
                                                               "properties": {"greeting": {"type": "string"}}})
            ic["template"] = "file://tm/shared.templ"
            if case["inj"]["file"] == k:
                ic["template-data"] = {"greeting": 42 if inj else "fine"}   # the fault-free reference run renders the same configuration with conforming data
            else:
                ic["require-template-schema-exists"] = False
                ic["template-data"] = {"greeting": "legacy", "forbidden-by-schema": k}
        elif inj and inj["file"] == k:
            st = inj["stage"]
            if st == "template-missing":
                ic["template"] = "file://tm/missing.templ"
            elif st == "template-404":
                ic["template"] = "http://127.0.0.1:%d/nope/%d/t.templ" % (server.http, case["i"])
            elif st == "template-truncated":
                # the transfer of the template dies midway (full Content-Length announced, half of the bytes sent, connection closed); the half that
                # arrives is literal text that would still parse as a template and, under gofmt/noop, still format
                server.put("tr/%d/t.templ" % case["i"], "package {{.PkgName}}\n\n" + "".join("// literal line %03d of a template that is mostly text\n" % k for k in range(80)) +
                           "{{range .Interfaces}}type {{.StructName}} struct{}\n{{end}}")
                ic["template"] = "http://127.0.0.1:%d/trunc/tr/%d/t.templ" % (server.http, case["i"])
                ic["require-template-schema-exists"] = False
                ic["formatter"] = "gofmt" if case["formatter"] == "goimports" else case["formatter"]
            elif st == "template-missing-schema-not-required":
                ic["template"] = "file://tm/missing.templ"
                ic["require-template-schema-exists"] = False
                ic["formatter"] = "gofmt" if case["formatter"] == "goimports" else case["formatter"]   # a formatter that would accept an empty file
            elif st == "template-404-schema-not-required":
                ic["template"] = "http://127.0.0.1:%d/nope/%d/t.templ" % (server.http, case["i"])
                ic["require-template-schema-exists"] = False
                ic["formatter"] = "noop" if case["formatter"] == "goimports" else case["formatter"]
            elif st == "schema-missing":
                files["tm/ok.templ"] = "package {{.PkgName}}\n"
                ic["template"] = "file://tm/ok.templ"
            elif st == "schema-invalid-iface":
                ic["template-data"] = {"not-a-known-option": 1}
            elif st == "template-parse":
                files["tm/parse.templ"] = "package {{.PkgName}}\n{{ if }}\n"
                ic["template"] = "file://tm/parse.templ"
                ic["require-template-schema-exists"] = False
            elif st == "template-exec":
                files["tm/exec.templ"] = "package {{.PkgName}}\n// partial output before the failure\n{{ range .Interfaces }}{{ div 1 0 }}{{ end }}\n"
                ic["template"] = "file://tm/exec.templ"
                ic["require-template-schema-exists"] = False
            elif st == "format":
                files["tm/badgo.templ"] = "package {{.PkgName}}\n\nfunc broken( {\n"
                ic["template"] = "file://tm/badgo.templ"
                ic["require-template-schema-exists"] = False
                ic["formatter"] = "gofmt" if case["formatter"] == "noop" else case["formatter"]
        p["interfaces"]["I%d" % k] = {"config": ic}
        outputs[k] = (oprefix["p"] + fdir + "m_all.go") if share else oprefix["p"] + "%sm_%s.go" % (fdir, sname("I%d" % k))
    cfg["packages"] = {MOD + "/p": p}
    # a second package with one file; the file-level schema violation lives here
    p2 = {"config": {}, "interfaces": {"Q": None}}
    if inj and inj["stage"] == "schema-invalid-file":
        p2["config"]["template-data"] = {"unroll-variadic": "not a boolean"}
    cfg["packages"][MOD + "/p2"] = p2
    outputs["q"] = oprefix["p2"] + fdir + "m_%s.go" % sname("Q")
    files[".mockery.yml"] = json.dumps(cfg)
    return files, cfg, outputs


def sha(b):
    return hashlib.sha256(b).hexdigest()


def eval_case(ctx, case):
    server = ctx.server
    # ---- reference run: same configuration without the fault, on a pristine tree
    rfiles, rcfg, outputs = build(case, None, server, with_injection=False, all_force=True)
    ref_root = core.scratch_module(ctx, dict(rfiles, **BYSTANDERS))
    r0 = core.run_mockery(ctx, ref_root, [], timeout=300, nofile=case.get("nofile"))
    if r0.timed_out:
        return Verdict.inconclusive("watchdog (reference run)")
    if r0.exit != 0:
        # the same configuration without any fault, on a pristine tree, everything forced: nothing prevents it from succeeding
        return Verdict.violated("a fault-free run of the configuration on a pristine tree exited %s" % r0.exit, dict(r0.brief(), config=rcfg),
                                ["reference-run"] + (["line-directive"] if case.get("line_directive") else []) + (["filename-with-directory"] if case.get("filename_subdir") else []))
    ref = {}
    for k, rel in outputs.items():
        if not os.path.isfile(os.path.join(ref_root, rel)):
            written = sorted(os.path.relpath(os.path.join(dp, fn), ref_root) for dp, _, fns in os.walk(os.path.join(ref_root, "out")) for fn in fns)
            shutil.rmtree(ref_root, ignore_errors=True)
            return Verdict.violated("a fault-free run on a pristine tree exited 0 but did not write the designated output %s (Clean(dir/filename)); it wrote %s" % (rel, written),
                                    {"config": rcfg, "written": written}, ["reference-run"] + (["filename-with-directory"] if case.get("filename_subdir") else []))
        with open(os.path.join(ref_root, rel), "rb") as f:
            ref[rel] = f.read()
    shutil.rmtree(ref_root, ignore_errors=True)
    # ---- the run under test
    files, cfg, outputs = build(case, None, server, with_injection=True, all_force=False)
    root = core.scratch_module(ctx, dict(files, **BYSTANDERS))
    states = {}
    for k, rel in outputs.items():
        st = case["files"][0 if case.get("share") else k - 1]["state"] if k != "q" else "absent"
        if rel in states:
            continue   # several mocks share this output file
        states[rel] = st
        p = os.path.join(root, rel)
        if st == "absent":
            continue
        os.makedirs(os.path.dirname(p), exist_ok=True)
        if st == "dir":
            os.makedirs(p)
            open(os.path.join(p, "inside.txt"), "w").write("keep me\n")
        elif st == "dirlink":
            target = p + ".d"
            os.makedirs(target)
            open(os.path.join(target, "inside.txt"), "w").write("keep me\n")
            os.symlink(os.path.basename(target), p)
        else:
            if st == "prev-long":
                body = ref[rel] + b"\n// older, longer generation\n" + b"// padding line\n" * 200
            elif st == "prev-short":
                body = b"// Code generated by mockery; DO NOT EDIT.\n\npackage mocks\n"
            elif st == "user":
                body = b"package mocks\n\n// written by a human\nfunc Helper() {}\n" + b"// x\n" * 400
            else:
                body = b"package mocks\n\n// this file says DO NOT EDIT but is the user's\n"
            open(p, "wb").write(body)
        # decoys next to the output that an unsafe writer might use as scratch space
        for suffix in (".tmp", ".bak", "~"):
            open(p + suffix if st != "dir" else p + suffix, "w").write("user file next to an output: %s\n" % suffix)
    if case.get("decoy_at_basename"):
        for rel in list(outputs.values()):
            d = os.path.join(root, os.path.dirname(os.path.dirname(rel)), os.path.basename(rel))   # <dir>/<basename>, one level above the designated file
            os.makedirs(os.path.dirname(d), exist_ok=True)
            if not os.path.exists(d):
                open(d, "w").write("package mocks\n\n// hand written, not an output of this run\n")
    before = core.snapshot(root)
    before_bytes = {}
    for rel in outputs.values():
        p = os.path.join(root, rel)
        if os.path.isfile(p):
            before_bytes[rel] = open(p, "rb").read()
    strace = core.strace_available()
    env = None
    if case.get("env_force") is not None and case.get("root_force") is not None:
        # the file states force-file-write at the top level: a MOCKERY_FORCE_FILE_WRITE variable (lower precedence) must not change anything
        env = {"MOCKERY_FORCE_FILE_WRITE": "true" if case["env_force"] else "false"}
    r = core.run_mockery(ctx, root, [], env_extra=env, strace=strace, timeout=600, nofile=case.get("nofile"))
    if r.timed_out:
        return Verdict.inconclusive("watchdog")
    after = core.snapshot(root)
    # ---- model
    eff_force = {}
    for k, rel in outputs.items():
        if k == "q":
            eff = cfgmodel.resolve(cfgmodel.levels_for(cfg, MOD + "/p2", "Q", None))
        else:
            eff = cfgmodel.resolve(cfgmodel.levels_for(cfg, MOD + "/p", "I%d" % k, None))
        eff_force[rel] = bool(eff["force-file-write"])
    inj = case["inj"]
    inj_rel = None
    if inj:
        inj_rel = outputs["q"] if inj["stage"] == "schema-invalid-file" else outputs[inj["file"]]
    blocked = [rel for rel in outputs.values() if states[rel] != "absent" and not eff_force[rel]]
    dir_clash = [rel for rel in outputs.values() if states[rel] in DIRLIKE and eff_force[rel]]
    must_fail = bool(blocked or dir_clash or inj)
    tags = ["files=%d" % len(set(outputs.values())), "formatter=" + case["formatter"]] + (["shared-file-of-%d" % case["n"]] if case.get("share") else []) + (["filename-with-directory"] if case.get("filename_subdir") else []) + (["line-directive"] if case.get("line_directive") else []) + (["env-contradicts-file"] if case.get("env_force") is not None and case.get("root_force") is not None else []) + (["inject=" + inj["stage"]] if inj else ["no-fault"]) + \
           (["blocked-by-existing"] if blocked else []) + (["dir-at-output"] if dir_clash else []) + ([] if strace else ["no-strace"])
    obs = {"exit": r.exit, "states": states, "effective_force": eff_force, "injected": inj, "must_fail": must_fail,
           "syscall_events": len(r.events), "strace": strace}
    if r.panicked:
        return Verdict.violated("mockery crashed", dict(obs, **r.brief()), tags)
    if inj and inj["stage"] == "template-truncated" and not blocked and not dir_clash:
        # the fault must really have been injected: the helper logs the request it cut short (a stage that injects nothing decides nothing)
        import time as _t
        for _ in range(40):   # the helper prints its request line after the handler returns; its reader thread may lag a moment
            served = [q for q in server.requests_for("trunc/tr/%d" % case["i"]) if q.endswith(" 200")]
            if served:
                break
            _t.sleep(0.05)
        obs["truncated_transfers_served"] = len(served)
        if not served and r.exit != 0 and "unexpected EOF" not in (r.err + r.out) and "must use the same template" not in (r.err + r.out):
            # (in a shared output file the injected interface's different template is itself refused before anything is fetched: the run fails as it must)
            return Verdict.inconclusive("the truncated transfer was not served (%s); the run said: %s" % (server.requests_for("trunc/tr/%d" % case["i"])[:2], (r.err + r.out)[-500:]))
    designated = set(outputs.values())
    designated_dirs = set()
    for rel in designated:
        d = os.path.dirname(rel)
        while d:
            designated_dirs.add(d)
            d = os.path.dirname(d)
    # (1) snapshot: nothing but designated outputs (and their parent directories) may differ
    diff = core.snap_diff(before, after)
    stray = [k for k in diff if k not in designated and k.rstrip("/") not in designated_dirs]
    if stray:
        return Verdict.violated("paths other than the designated outputs changed: %s" % {k: diff[k] for k in stray[:5]}, dict(obs, **r.brief()), tags)
    # (2) syscall trace: mutations only on designated outputs / their parents, or on transient temp files next to an output
    #     that did not exist before and do not exist afterwards
    out_dirs = {os.path.dirname(x) for x in designated}
    for ev in r.events:
        if not ev["ok"]:
            continue
        for pth in [ev["path"]] + ([ev["path2"]] if "path2" in ev else []):
            if not (pth == root or pth.startswith(root + "/")):
                continue
            rel = os.path.relpath(pth, root)
            if rel in designated or rel in designated_dirs or rel == ".":
                continue
            transient = rel not in before and (rel + "/") not in before and rel not in after and os.path.dirname(rel) in out_dirs
            if transient:
                ctx.count("transient_temp_files")
                continue
            return Verdict.violated("syscall %s on %s, which is neither a designated output nor a transient temp file next to one" % (ev["op"], rel),
                                    dict(obs, event=ev, **r.brief()), tags)
    # (3) exit status
    if must_fail and r.exit == 0:
        return Verdict.violated("the run had to fail (blocked=%s dir=%s injected=%s) but exited 0" % (blocked, dir_clash, inj), dict(obs, **r.brief()), tags)
    if not must_fail and r.exit != 0:
        return Verdict.violated("nothing prevents this run from succeeding but it exited %s" % r.exit, dict(obs, **r.brief()), tags)
    # (4)/(5) every output path: complete old content or complete new content, and the protected ones old
    for rel in outputs.values():
        p = os.path.join(root, rel)
        st = states[rel]
        if st in DIRLIKE:
            if not os.path.isdir(p) or open(os.path.join(p, "inside.txt")).read() != "keep me\n" or os.path.islink(p) != (st == "dirlink"):
                return Verdict.violated("%s occupying output path %s was disturbed" % ("directory" if st == "dir" else "symbolic link to a directory", rel), obs, tags)
            continue
        now = open(p, "rb").read() if os.path.isfile(p) else None
        old = before_bytes.get(rel)
        new = ref[rel]
        protected = (rel in blocked) or (rel == inj_rel) or (inj is not None and inj["stage"] in ALL_FILES_STAGES and rel != outputs["q"])
        if protected and now != old:
            return Verdict.violated("output %s had to keep its previous %s (%s) but changed" % (
                rel, "content" if old is not None else "absence", "force-file-write false" if rel in blocked else "its production fails at stage " + inj["stage"]),
                dict(obs, now_len=None if now is None else len(now), old_len=None if old is None else len(old)), tags)
        if now != old and now != new:
            return Verdict.violated("output %s holds neither its complete old content nor the complete new content (len now %s, old %s, new %s)" % (
                rel, None if now is None else len(now), None if old is None else len(old), len(new)), obs, tags)
        if not must_fail and now != new:
            return Verdict.violated("successful run but output %s does not hold the new content" % rel, obs, tags)
    return Verdict.held({"exit": r.exit, "must_fail": must_fail, "syscall_events": len(r.events),
                         "writes": sorted(set(os.path.relpath(e["path"], root) for e in r.events if e["ok"] and e["op"] == "open_w"))[:8]}, tags=tags)


def body(ctx, replay=None):
    core.build_mockery(ctx)
    ctx.level = "fault_enumeration"
    ctx.server = Server(ctx)
    ctx.rule = ("each case = 2-6 output files (1-5 interfaces of one package + one of a second) x initial state per output path {absent, previous generated "
                "content longer/shorter than the new one, user content with/without a DO NOT EDIT line, directory} x force-file-write at root/package/interface "
                "level x formatter x at most one injected failure at one of 8 pipeline stages on one file; bystander files incl. decoys named like outputs and "
                "<output>.tmp/.bak/~ files; every run traced with strace and compared with a fault-free reference run of the same configuration. "
                "non-trivial = every case; distinct = case hash")
    ctx.assumptions = ["I/O errors (ENOSPC, EIO) are outside the property's fault list", "temp files next to an output that did not exist before and are gone afterwards are tolerated",
                       "checks run as root: read-only files are not a meaningful initial state"]
    try:
        if replay is not None:
            cases = [replay]
        else:
            n = 70 if ctx.tier == "quick" else 700
            cases = [gen_case(ctx.rng, i) for i in range(n)]
            # every stage at least once on a single-file and on a multi-file run
            for j, st in enumerate(STAGES):
                for nfiles in (1, 4):
                    c = gen_case(ctx.rng, 10000 + j * 2 + nfiles)
                    c["n"] = nfiles
                    c["files"] = (c["files"] + [{"state": "prev-long", "force": None, "template": "testify"}] * 5)[:nfiles]
                    c["inj"] = {"stage": st, "file": 1 + (j % nfiles)}
                    c["root_force"] = True
                    cases.append(c)
            # an unretrievable template shared by all 3-4 files of the package, under formatters that accept an empty file, over absent / previous / user content
            for j, (stage, st0, fm) in enumerate((a, b, c) for a in ALL_FILES_STAGES for b in ("absent", "prev-long", "user") for c in ("noop", "gofmt")):
                nn = 3 + j % 2
                cases.append({"kind": "write", "i": 31000 + j, "n": nn, "inj": {"stage": stage, "file": 1}, "formatter": fm,
                              "files": [{"state": st0, "force": None, "template": "testify"}] * nn, "root_force": True, "pkg_force": None})
            # sources starting with a //line directive, output directory derived from {{.InterfaceDir}}
            for j, (st0, rf) in enumerate((("absent", None), ("prev-long", True))):
                cases.append({"kind": "write", "i": 34000 + j, "n": 2, "inj": None, "formatter": "gofmt", "line_directive": True,
                              "files": [{"state": st0, "force": None, "template": "testify"}, {"state": "absent", "force": None, "template": "matryer"}], "root_force": rf, "pkg_force": None})
            # many output files under a descriptor table smaller than the number of files (1024 for 1101 files): nothing the run opened for one file stays open while the next ones are written
            for j, (st0, fm) in enumerate(((("absent", "noop"),) if ctx.tier == "quick" else (("absent", "noop"), ("prev-long", "gofmt")))):
                # (1024 is the customary soft limit, under which the go command is known to work on any machine)
                cases.append({"kind": "write", "i": 37000 + j, "n": 1100, "inj": None, "formatter": fm, "nofile": 1024,
                              "files": [{"state": st0, "force": None, "template": "testify"}] * 1100, "root_force": True, "pkg_force": None})
            # one custom template shared by the 4 files of the package, only one of them requires its schema - and violates it
            for j, (st0, pos, fm) in enumerate((a, b, c) for a in ("prev-long", "user", "absent") for b in (1, 3) for c in ("noop", "gofmt")):
                cases.append({"kind": "write", "i": 36000 + j, "n": 4, "inj": {"stage": "schema-invalid-shared-template", "file": pos}, "formatter": fm,
                              "files": [{"state": st0, "force": None, "template": "testify"}] * 4, "root_force": True, "pkg_force": None})
            # the file name refers to {{.StructName}} (itself templated by default) next to constant parameters: the designated files are those of the fixpoint
            for j, (st0, rf, nn) in enumerate((("absent", None, 5), ("prev-long", True, 5), ("absent", None, 6), ("user", True, 4), ("absent", True, 6), ("prev-short", True, 5))):
                cases.append({"kind": "write", "i": 35000 + j, "n": nn, "inj": None, "formatter": ["noop", "gofmt"][j % 2], "struct_in_filename": True,
                              "files": [{"state": st0 if st0 in STATES else "absent", "force": None, "template": ["testify", "matryer"][k % 2]} for k in range(nn)], "root_force": rf, "pkg_force": None})
            # filename with a directory component, with a user file at <dir>/<basename> that is NOT an output of the run
            for j, (st0, rf) in enumerate((("absent", None), ("user", True), ("prev-long", True))):
                cases.append({"kind": "write", "i": 33000 + j, "n": 2, "inj": None, "formatter": "noop", "filename_subdir": True, "decoy_at_basename": True,
                              "files": [{"state": st0, "force": None, "template": "testify"}, {"state": "absent", "force": None, "template": "matryer"}], "root_force": rf, "pkg_force": None})
            # the environment says the opposite of the file's top-level force-file-write: the file wins
            for j, (rf, st0) in enumerate((a, b) for a in (True, False) for b in ("prev-long", "user")):
                cases.append({"kind": "write", "i": 32000 + j, "n": 2, "inj": None, "formatter": "gofmt", "env_force": not rf,
                              "files": [{"state": st0, "force": None, "template": "testify"}, {"state": "absent", "force": None, "template": "matryer"}], "root_force": rf, "pkg_force": None})
            # a shared output file of 3 mocks: violation on the first, the middle and the last interface, over absent / user / previous content
            for j, (pos, st0, stage) in enumerate((a, b, c) for a in (1, 2, 3) for b in ("absent", "user", "prev-long") for c in ("schema-invalid-iface", "template-exec")):
                cases.append({"kind": "write", "i": 30000 + j, "n": 3, "share": True, "inj": {"stage": stage, "file": pos}, "formatter": ["goimports", "gofmt", "noop"][j % 3],
                              "files": [{"state": st0, "force": None, "template": ["testify", "matryer"][j % 2]}] * 3, "root_force": True, "pkg_force": None})
            # every initial state x force-file-write, without a fault, on a single-file and a multi-file run
            for j, (st, force, nfiles) in enumerate((a, b, c) for a in STATES for b in (True, False) for c in (1, 3)):
                cases.append({"kind": "write", "i": 20000 + j, "n": nfiles, "inj": None, "formatter": ["goimports", "gofmt", "noop"][j % 3],
                              "files": [{"state": st if k == 0 else ("absent" if k == 1 else "prev-long"), "force": None, "template": ["testify", "matryer"][k % 2]}
                                        for k in range(nfiles)], "root_force": force if j % 2 else None, "pkg_force": None if j % 2 else force})
        ctx.run_cases(cases, eval_case)
    finally:
        ctx.server.close()
    if not core.strace_available():
        ctx.assumptions.append("strace/ptrace unavailable in this run: degraded to snapshots only")
    return ctx.finish()


if __name__ == "__main__":
    core.main_wrapper("C10", "fault_enumeration", body)
