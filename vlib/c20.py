"""C20 — release tagger: dry-run mutates nothing; only strictly newer versions are tagged.

Plane P1: the tools binary (rebuilt from the working tree) is run inside scratch git
repositories; the monitor compares complete before/after repository state (all refs with
peeled targets, HEAD, index, status, work-tree content) against a SemVer-2.0.0 reference model.
"""
import hashlib
import os
import re
import subprocess

from . import core
from .core import Verdict

GITENV = {
    "GIT_AUTHOR_NAME": "t", "GIT_AUTHOR_EMAIL": "t@example.invalid", "GIT_COMMITTER_NAME": "t",
    "GIT_COMMITTER_EMAIL": "t@example.invalid", "GIT_CONFIG_GLOBAL": "/dev/null", "GIT_CONFIG_SYSTEM": "/dev/null",
    "GIT_AUTHOR_DATE": "2024-01-01T00:00:00Z", "GIT_COMMITTER_DATE": "2024-01-01T00:00:00Z",
}

# ---------------------------------------------------------------- SemVer 2.0.0 model
SEMVER_RE = re.compile(r"^v?(0|[1-9]\d*)\.(0|[1-9]\d*)\.(0|[1-9]\d*)"
                       r"(?:-((?:0|[1-9]\d*|\d*[a-zA-Z-][0-9a-zA-Z-]*)(?:\.(?:0|[1-9]\d*|\d*[a-zA-Z-][0-9a-zA-Z-]*))*))?"
                       r"(?:\+([0-9a-zA-Z-]+(?:\.[0-9a-zA-Z-]+)*))?$")


def parse_semver(s):
    m = SEMVER_RE.match(s)
    if not m:
        return None
    pre = m.group(4)
    return (int(m.group(1)), int(m.group(2)), int(m.group(3)), pre.split(".") if pre else None)


REQ_RE = re.compile(r"^v?(0|[1-9]\d*)(?:\.(0|[1-9]\d*))?(?:\.(0|[1-9]\d*))?(?:-([0-9A-Za-z.-]+))?(?:\+([0-9A-Za-z.-]+))?$")


def parse_request(s):
    """the requested version may be written in short form (v3.1, 3): missing parts are 0. Returns (tuple like parse_semver, full tag name)."""
    m = REQ_RE.match(s)
    if not m:
        return None, None
    ma, mi, pa = int(m.group(1)), int(m.group(2) or 0), int(m.group(3) or 0)
    pre, build = m.group(4), m.group(5)
    name = "v%d.%d.%d" % (ma, mi, pa) + ("-" + pre if pre else "") + ("+" + build if build else "")
    return (ma, mi, pa, pre.split(".") if pre else None), name


def _cmp_pre(a, b):
    if a is None and b is None:
        return 0
    if a is None:
        return 1
    if b is None:
        return -1
    for x, y in zip(a, b):
        xn, yn = x.isdigit(), y.isdigit()
        if xn and yn:
            if int(x) != int(y):
                return -1 if int(x) < int(y) else 1
        elif xn != yn:
            return -1 if xn else 1
        elif x != y:
            return -1 if x < y else 1
    return (len(a) > len(b)) - (len(a) < len(b))


def semver_cmp(a, b):
    if a[:3] != b[:3]:
        return -1 if a[:3] < b[:3] else 1
    return _cmp_pre(a[3], b[3])


# ---------------------------------------------------------------- case generation
PRES = ["rc.1", "rc.2", "alpha", "alpha.1", "beta.11", "beta.2", "1", "0.3.7", "x-y"]
BUILDS = ["b1", "20240101", "exp.sha.5114f85"]
OTHER_NAMES = ["latest", "release-2024", "nightly", "stable_1", "v", "vnext"]
BAD_DOTTED = ["foo.bar.baz", "v1.2.x", "a.b.c.d"]


def gen_version(rng, major=None, lo=False):
    major = rng.choice([0, 1, 1, 2, 3]) if major is None else major
    v = "%d.%d.%d" % (major, rng.choice([0, 1, 2, 9, 10]), rng.choice([0, 1, 2, 9, 10]))
    if rng.random() < 0.3:
        v += "-" + rng.choice(PRES)
    if rng.random() < 0.15:
        v += "+" + rng.choice(BUILDS)
    return v


def neighbours(rng, v):
    """Versions around the boundary of existing version tuple v (parsed)."""
    ma, mi, pa, pre = v
    out = ["%d.%d.%d" % (ma, mi, pa), "%d.%d.%d" % (ma, mi, pa + 1), "%d.%d.%d" % (ma, mi + 1, 0),
           "%d.%d.%d-rc.1" % (ma, mi, pa), "%d.%d.%d-rc.1" % (ma, mi, pa + 1), "%d.%d.%d+b7" % (ma, mi, pa)]
    if pa > 0:
        out.append("%d.%d.%d" % (ma, mi, pa - 1))
    if mi > 0:
        out.append("%d.%d.%d" % (ma, mi - 1, 99))
    if pre:
        out += ["%d.%d.%d-%s" % (ma, mi, pa, ".".join(pre)), "%d.%d.%d-%s.1" % (ma, mi, pa, ".".join(pre)),
                "%d.%d.%d-%s" % (ma, mi, pa, "a"), "%d.%d.%d-%s" % (ma, mi, pa, "zz")]
    return out


def gen_case(rng, i):
    ncommits = rng.randint(1, 4)
    tags = []
    names = set()
    ntags = rng.choice([0, 1, 2, 3, 5, 8, 12])
    for _ in range(ntags):
        r = rng.random()
        if r < 0.6:
            name = gen_version(rng)
            if rng.random() < 0.8:
                name = "v" + name
        elif r < 0.75:
            name = "v%d" % rng.choice([0, 1, 2, 3])
        elif r < 0.85:
            name = "v%d.%d" % (rng.choice([0, 1, 2]), rng.choice([0, 3, 11]))
        else:
            name = rng.choice(OTHER_NAMES)
        if name in names:
            continue
        names.add(name)
        tags.append({"name": name, "annotated": rng.random() < 0.5, "commit": rng.randrange(ncommits)})
    if rng.random() < 0.2:
        # one more tag that is a tag of an earlier annotated tag (a major-only name, or another name)
        ann = [t for t in tags if t["annotated"] and not t.get("of")]
        if ann:
            base = rng.choice(ann)
            pb = parse_semver(base["name"])
            nm = ("v%d" % pb[0]) if pb and rng.random() < 0.7 else "alias-of-" + base["name"].replace("+", "_")
            if nm not in names:
                names.add(nm)
                tags.append({"name": nm, "annotated": True, "commit": base["commit"], "of": base["name"]})
    bad = None
    if rng.random() < 0.06:
        bad = rng.choice(BAD_DOTTED)
        tags.append({"name": bad, "annotated": rng.random() < 0.5, "commit": rng.randrange(ncommits)})
    # requested version: around the boundaries of the existing set most of the time
    fulls = [parse_semver(t["name"]) for t in tags if parse_semver(t["name"])]
    if fulls and rng.random() < 0.8:
        req = rng.choice(neighbours(rng, rng.choice(fulls)))
    else:
        req = gen_version(rng)
    if rng.random() < 0.15:
        # short form of a version whose trailing parts are zero (v3.1 means 3.1.0, 3 means 3.0.0)
        p = parse_semver(req)
        if p and p[3] is None and "+" not in req:
            req = ("%d" % p[0]) if rng.random() < 0.3 else "%d.%d" % (p[0], p[1])
    if rng.random() < 0.7:
        req = "v" + req
    return {
        "i": i, "ncommits": ncommits, "tags": tags, "version": req,
        "dirty": rng.choice(["clean"] * 5 + ["untracked", "modified", "staged"]),
        "dryrun": rng.choice(["absent", "true", "false", "false", "false"]),
        "envloc": rng.choice([".", ".."]),
        "packed": rng.random() < 0.2,
        # the tool's environment prefix: a variable that is present but empty (an undefined CI input) or says "true" never asks for a real run
        "procenv": rng.choice([None, None, None, {"MOCKERYTOOLS_DRY_RUN": ""}, {"MOCKERYTOOLS_DRY_RUN": "true"}, {"MOCKERYTOOLS_DRY-RUN": ""}, {"MOCKERYTOOLS_VERSION": ""}]),
    }


FIXED_CASES = [
    {"i": -40, "ncommits": 2, "tags": [{"name": "v3.0.2", "annotated": True, "commit": 0}, {"name": "v3", "annotated": True, "commit": 0}], "version": "v3.0.3",
     "dirty": "clean", "dryrun": "absent", "envloc": ".", "packed": False, "procenv": {"MOCKERYTOOLS_DRY_RUN": ""}},
    {"i": -41, "ncommits": 2, "tags": [{"name": "v3.0.2", "annotated": False, "commit": 0}], "version": "v3.0.3",
     "dirty": "clean", "dryrun": "absent", "envloc": "..", "packed": False, "procenv": {"MOCKERYTOOLS_DRY_RUN": "true", "MOCKERYTOOLS_VERSION": ""}},
    # the witness of the repaired dry-run defect (D19): default invocation must not tag
    {"i": -1, "ncommits": 2, "tags": [{"name": "v1.0.0", "annotated": True, "commit": 0}], "version": "v1.1.0",
     "dirty": "clean", "dryrun": "absent", "envloc": ".", "packed": False},
    {"i": -2, "ncommits": 2, "tags": [{"name": "v1.0.0", "annotated": False, "commit": 0}, {"name": "v1", "annotated": True, "commit": 0}],
     "version": "v1.1.0", "dirty": "clean", "dryrun": "true", "envloc": "..", "packed": False},
    {"i": -3, "ncommits": 3, "tags": [{"name": "v1.0.0", "annotated": False, "commit": 0}, {"name": "v1", "annotated": False, "commit": 0},
                                      {"name": "v2.5.0", "annotated": True, "commit": 1}],
     "version": "v1.0.1", "dirty": "clean", "dryrun": "false", "envloc": ".", "packed": False},
    {"i": -4, "ncommits": 1, "tags": [{"name": "v3.0.0-rc.2", "annotated": True, "commit": 0}], "version": "3.0.0-rc.10",
     "dirty": "clean", "dryrun": "false", "envloc": ".", "packed": True},
    {"i": -5, "ncommits": 1, "tags": [{"name": "v3.0.0", "annotated": True, "commit": 0}], "version": "3.0.0+build5",
     "dirty": "clean", "dryrun": "false", "envloc": ".", "packed": False},
    {"i": -6, "ncommits": 2, "tags": [{"name": "v1.2.3", "annotated": False, "commit": 1}], "version": "v1.3.0",
     "dirty": "untracked", "dryrun": "false", "envloc": "..", "packed": False},
    # requested version written in short form: the tag created is still the full version tag
    {"i": -7, "ncommits": 2, "tags": [{"name": "v3.0.0", "annotated": True, "commit": 0}, {"name": "v3", "annotated": True, "commit": 0}], "version": "v3.1",
     "dirty": "clean", "dryrun": "false", "envloc": ".", "packed": False},
    {"i": -8, "ncommits": 2, "tags": [{"name": "v3.9.9", "annotated": False, "commit": 0}], "version": "4",
     "dirty": "clean", "dryrun": "false", "envloc": ".", "packed": False},
    {"i": -9, "ncommits": 2, "tags": [{"name": "v3.1.0", "annotated": False, "commit": 0}], "version": "v3.1",
     "dirty": "clean", "dryrun": "false", "envloc": ".", "packed": False},
    # an annotated major tag stored in packed-refs is moved: its peeled line must not stay behind (after a branch entry: silently attached to it;
    # after another annotated tag's peeled line: git can no longer read the file)
    {"i": -11, "ncommits": 2, "tags": [{"name": "v3", "annotated": True, "commit": 0}, {"name": "v3.0.0", "annotated": True, "commit": 0}], "version": "v3.1.0",
     "dirty": "clean", "dryrun": "false", "envloc": "..", "packed": True},
    {"i": -12, "ncommits": 2, "tags": [{"name": "v2.9.0", "annotated": True, "commit": 0}, {"name": "v3", "annotated": True, "commit": 0}, {"name": "v3.0.0", "annotated": False, "commit": 0}],
     "version": "v3.0.1", "dirty": "clean", "dryrun": "false", "envloc": "..", "packed": True},
    {"i": -13, "ncommits": 2, "tags": [{"name": "v3", "annotated": False, "commit": 0}, {"name": "v3.0.0", "annotated": True, "commit": 0}], "version": "v3.1.0",
     "dirty": "clean", "dryrun": "false", "envloc": "..", "packed": True},
    # the major tag is a tag of an (annotated) full-version tag
    {"i": -14, "ncommits": 2, "tags": [{"name": "v3.0.1", "annotated": True, "commit": 0}, {"name": "v3", "annotated": True, "commit": 0, "of": "v3.0.1"}], "version": "v3.1.0",
     "dirty": "clean", "dryrun": "false", "envloc": "..", "packed": False},
    {"i": -15, "ncommits": 2, "tags": [{"name": "v3.0.1", "annotated": True, "commit": 0}, {"name": "v3", "annotated": True, "commit": 0, "of": "v3.0.1"}], "version": "v3.0.1",
     "dirty": "clean", "dryrun": "false", "envloc": "..", "packed": True},
    {"i": -16, "ncommits": 3, "tags": [{"name": "v2.0.0", "annotated": True, "commit": 0}, {"name": "v2.0.1", "annotated": True, "commit": 1, "of": "v2.0.0"}, {"name": "v2", "annotated": True, "commit": 1, "of": "v2.0.1"}],
     "version": "v2.0.2", "dirty": "clean", "dryrun": "false", "envloc": ".", "packed": False},
    {"i": -10, "ncommits": 2, "tags": [{"name": "v3.0.5", "annotated": False, "commit": 0}], "version": "v3.1",
     "dirty": "clean", "dryrun": "true", "envloc": ".", "packed": False},
]


# ---------------------------------------------------------------- execution
def git(args, cwd, check=True):
    env = dict(os.environ)
    env.update(GITENV)
    p = subprocess.run(["git"] + args, cwd=cwd, env=env, capture_output=True, text=True)
    if check and p.returncode != 0:
        raise RuntimeError("git %s: %s" % (args, p.stderr))
    return p.stdout


def packed_refs_problems(repo):
    """structural monitor over .git/packed-refs: a peeled line (^sha) may only follow the entry of an annotated tag and must name the object that tag peels to"""
    p = os.path.join(repo, ".git", "packed-refs")
    if not os.path.exists(p):
        return []
    problems, prev = [], None
    for ln in open(p, errors="replace").read().splitlines():
        if not ln or ln.startswith("#"):
            continue
        if ln.startswith("^"):
            if prev is None:
                problems.append("peeled line %s does not follow a ref entry" % ln)
                continue
            sha, name = prev
            prev = None
            typ = git(["cat-file", "-t", sha], repo, check=False).strip()
            peel = git(["rev-parse", "--verify", "-q", sha + "^{}"], repo, check=False).strip()
            if typ != "tag" or peel != ln[1:]:
                problems.append("entry %s (%s %s) carries peeled value %s, the object peels to %s" % (name, typ, sha[:12], ln[1:13], peel[:12]))
            continue
        parts = ln.split(" ", 1)
        prev = (parts[0], parts[1]) if len(parts) == 2 else None
    return problems


def _read(p):
    try:
        return open(p, errors="replace").read()[:2000]
    except OSError:
        return None


def repo_state(repo):
    refs = {}
    for line in git(["for-each-ref", "--format=%(refname)\t%(objectname)\t%(objecttype)\t%(*objectname)"], repo).splitlines():
        rn, on, ot, peeled = (line.split("\t") + ["", "", ""])[:4]
        refs[rn] = {"obj": on, "type": ot, "commit": peeled or on}
    head = git(["rev-parse", "HEAD"], repo).strip()
    sym = git(["symbolic-ref", "-q", "HEAD"], repo, check=False).strip()
    index = hashlib.sha256(git(["ls-files", "-s"], repo).encode()).hexdigest()
    status = git(["status", "--porcelain=v1", "-uall"], repo)
    wt = core.snapshot(repo)
    wt = {k: v for k, v in wt.items() if not (k == ".git/" or k.startswith(".git/"))}
    return {"refs": refs, "head": head, "sym": sym, "index": index, "status": status, "worktree": core.tree_hash(wt), "packed_problems": packed_refs_problems(repo)}


def build_repo(ctx, case):
    outer = ctx.newdir("g")
    repo = os.path.join(outer, "repo")
    os.makedirs(repo)
    git(["init", "-q", "-b", "main"], repo)
    envtext = "VERSION=%s\n" % case["version"]
    commits = []
    for c in range(case["ncommits"]):
        with open(os.path.join(repo, "f.txt"), "w") as f:
            f.write("content %d\n" % c)
        if c == 0 and case["envloc"] == ".":
            with open(os.path.join(repo, "mockery-tools.env"), "w") as f:
                f.write(envtext)
        git(["add", "-A"], repo)
        git(["commit", "-q", "-m", "c%d" % c], repo)
        commits.append(git(["rev-parse", "HEAD"], repo).strip())
    if case["envloc"] == "..":
        with open(os.path.join(outer, "mockery-tools.env"), "w") as f:
            f.write(envtext)
    for t in case["tags"]:
        if t.get("of"):
            # a tag of a tag: `git tag -a v3 v3.0.1` with an annotated v3.0.1 creates a tag object that points at a tag object
            git(["tag", "-a", "-m", t["name"], t["name"], t["of"]], repo)
        elif t["annotated"]:
            git(["tag", "-a", "-m", t["name"], t["name"], commits[t["commit"]]], repo)
        else:
            git(["tag", t["name"], commits[t["commit"]]], repo)
    if case.get("packed"):
        git(["pack-refs", "--all"], repo)
    d = case["dirty"]
    if d == "untracked":
        open(os.path.join(repo, "junk.txt"), "w").write("x\n")
    elif d == "modified":
        open(os.path.join(repo, "f.txt"), "a").write("more\n")
    elif d == "staged":
        open(os.path.join(repo, "f.txt"), "a").write("more\n")
        git(["add", "f.txt"], repo)
    return repo, commits


def model(case):
    req, _ = parse_request(case["version"])
    fulls = []
    unparseable = False
    for t in case["tags"]:
        n = t["name"]
        p = parse_semver(n)
        if p:
            fulls.append(p)
        elif len(n.split(".")) >= 3:
            unparseable = True
    same = [p for p in fulls if p[0] == req[0]]
    greater = all(semver_cmp(req, p) > 0 for p in same)
    # the tool's documented floor: nothing below or equal to 0.0.0 is ever "new" (not generated)
    dry = case["dryrun"] in ("absent", "true")
    clean = case["dirty"] == "clean"
    return {"greater": greater, "dry": dry, "clean": clean, "unparseable": unparseable, "req": req}


def eval_case(ctx, case):
    tools = ctx.extra_bin
    repo, commits = build_repo(ctx, case)
    before = repo_state(repo)
    args = [tools, "tag"]
    if case["dryrun"] != "absent":
        args.append("--dry-run=%s" % case["dryrun"])
    r = core.run(args, cwd=repo, env=core.base_env(dict(GITENV, **(case.get("procenv") or {}))), timeout=120, cpu_limit=60)
    if r.timed_out:
        return Verdict.inconclusive("watchdog")
    m = model(case)
    tags = ["dryrun=" + case["dryrun"], "dirty=" + case["dirty"], "greater=%s" % m["greater"]] + (["packed-refs"] if case.get("packed") else []) + (
        ["env:" + ",".join("%s=%r" % kv for kv in sorted(case["procenv"].items()))] if case.get("procenv") else [])
    try:
        after = repo_state(repo)
    except RuntimeError as e:
        # git itself read this repository a moment ago; if it cannot any more, the tool damaged it
        return Verdict.violated("after the run git can no longer read the repository: %s" % str(e)[-300:],
                                dict(r.brief(), exit=r.exit, packed_refs=_read(os.path.join(repo, ".git", "packed-refs")), kf_key="c20:packed-refs-damaged"), tags)
    if after["packed_problems"] and not before["packed_problems"]:
        return Verdict.violated("the run left .git/packed-refs inconsistent: %s" % after["packed_problems"][:2],
                                dict(r.brief(), exit=r.exit, packed_refs=_read(os.path.join(repo, ".git", "packed-refs")), kf_key="c20:packed-refs-damaged"), tags)
    obs = {"exit": r.exit, "refs_before": sorted(before["refs"]), "refs_after": sorted(after["refs"]),
           "model": {k: m[k] for k in ("greater", "dry", "clean", "unparseable")}}
    if r.panicked:
        return Verdict.violated("tagger crashed with a Go panic", dict(obs, **r.brief()), tags)
    changed = core.snap_diff(before["refs"], after["refs"])
    other = {k: (before[k], after[k]) for k in ("head", "sym", "index", "status", "worktree") if before[k] != after[k]}
    must_not_mutate = m["dry"] or not m["clean"] or not m["greater"] or m["unparseable"]
    full = parse_request(case["version"])[1]   # the *full* version tag, also when the request was written in short form
    # normalised full tag name: the tool prints the parsed version back; for strict semver input it is identical
    if must_not_mutate:
        if changed or other:
            why = ("repository mutated although %s: refs changed %s, other %s" % (
                "dry-run is in force" if m["dry"] else "work tree is dirty" if not m["clean"] else
                "requested version is not strictly greater" if not m["greater"] else "a dotted tag name is unparseable",
                {k: v for k, v in changed.items()}, list(other)))
            return Verdict.violated(why, dict(obs, **r.brief()), tags)
        if not m["dry"] and (not m["clean"] or not m["greater"]) and r.exit == 0:
            return Verdict.violated("exit status 0 although nothing could be tagged (dry-run off, %s)" %
                                    ("dirty tree" if not m["clean"] else "version not newer"), dict(obs, **r.brief()), tags)
        return Verdict.held(obs, tags=tags)
    # must tag: full version tag + major tag on HEAD, nothing else
    major = "v%d" % m["req"][0]
    exp = {"refs/tags/" + full, "refs/tags/" + major}
    if other:
        return Verdict.violated("tagging changed %s" % list(other), dict(obs, **r.brief()), tags)
    bad = [k for k in changed if k not in exp]
    if bad:
        return Verdict.violated("refs other than %s changed: %s" % (sorted(exp), bad), dict(obs, **r.brief()), tags)
    for e in sorted(exp):
        a = after["refs"].get(e)
        if a is None or a["commit"] != before["head"]:
            return Verdict.violated("expected %s on HEAD %s after tagging, found %s (exit %s)" % (e, before["head"], a, r.exit),
                                    dict(obs, **r.brief()), tags)
    if r.exit != 0:
        return Verdict.violated("tags were created but exit status is %s" % r.exit, dict(obs, **r.brief()), tags)
    return Verdict.held(obs, tags=tags + ["tagged"])


def body(ctx, replay=None):
    ctx.extra_bin = core.build_mockery(ctx, tools=True)
    ctx.rule = ("each case = scratch git repository (1-4 commits; 0-12 lightweight/annotated tags: full semver with/without v, "
                "pre-release/build metadata, other majors, major-only, two-part, non-semver, occasionally an unparseable dotted name; "
                "optionally packed refs) x work-tree state x requested version near a boundary of the existing set x dry-run flag "
                "{absent,true,false} x version file in . or ..; non-trivial = every case (each runs the tagger once and compares "
                "complete repository state); distinct = distinct case hashes")
    ctx.assumptions = ["git CLI reports refs faithfully", "requested versions <= 0.0.0 are not generated (tool's floor)",
                       "tags whose names are lenient-but-not-strict semver are not generated"]
    if replay is not None:
        cases = [replay]
    else:
        n = 150 if ctx.tier == "quick" else 2500
        cases = list(FIXED_CASES) + [gen_case(ctx.rng, i) for i in range(n)]
        # guarantee the floor: drop requests <= 0.0.0
        cases = [c for c in cases if parse_request(c["version"])[0] and semver_cmp(parse_request(c["version"])[0], (0, 0, 0, None)) > 0]
    ctx.run_cases(cases, eval_case)
    return ctx.finish()


if __name__ == "__main__":
    core.main_wrapper("C20", "exploration", body)
