"""C14 — data handed to custom templates describes the interfaces faithfully.

Planes P1 + P2: a re-emitting probe template writes Go source *purely from the data model*
(imports = reported imports under reported qualifiers; declarations, argument lists, call
lists, type lists, result lists, per-parameter strings, type-parameter data) for the C01
corpus, in and out of package; the harness adds assertion files demanding mutual
assignability between each re-emitted interface and the original, and the toolchain decides.
Method sets are cross-checked against go/types (gohelpers/ifaceinfo).
"""
import json
import os
import random
import re
import subprocess

from . import core, gosrc, mockgen, c01, c02
from .core import Verdict

REEMIT = r'''// PROBE-ID: REEMIT
{{- $src := .SrcPkgQualifier }}
{{- if $src }}{{ $_ := .Registry.AddImport .Registry.SrcPkgName .Registry.SrcPkg.PkgPath }}{{ end }}

package {{.PkgName}}

import (
{{- range .Imports}}
	{{ .ImportStatement }}
{{- end}}
)
{{range .Imports}}
// IMPORT path={{.Path}} q={{.Qualifier}} pkgq={{ $.Imports.PkgQualifier .Path }}
{{- end}}
{{range $i, $m := .Interfaces}}
// IFACE name={{$m.Name}} nmethods={{len $m.Methods}} methods={{range $m.Methods}}{{.Name}},{{end}}

// (1) Declaration
type Re{{$m.Name}}{{$m.TypeConstraint}} interface {
{{- range $m.Methods}}
	{{.Declaration}}
{{- end}}
}

// (2) Name + Signature
type Re2{{$m.Name}}{{$m.TypeConstraint}} interface {
{{- range $m.Methods}}
	{{.Name}}{{.Signature}}
{{- end}}
}

// (3) ArgList + ReturnArgTypeList
type Re3{{$m.Name}}{{$m.TypeConstraint}} interface {
{{- range $m.Methods}}
	{{.Name}}({{.ArgList}}) {{.ReturnArgTypeList}}
{{- end}}
}

// (4) ArgTypeListEllipsis
type Re4{{$m.Name}}{{$m.TypeConstraint}} interface {
{{- range $m.Methods}}
	{{.Name}}({{.ArgTypeListEllipsis}}) {{.ReturnArgTypeList}}
{{- end}}
}

// (5) forwarding wrapper built from the call lists; every type string of the signature is re-declared inside the body,
//     so a parameter name that captures a qualifier or a type name breaks compilation
type W{{$m.Name}}{{$m.TypeConstraint}} struct {
	inner {{$src}}{{$m.Name}}{{$m.TypeInstantiation}}
}
{{range $m.Methods}}{{ $w := .Scope.AllocateName "w" }}
func ({{$w}} *W{{$m.Name}}{{$m.TypeInstantiation}}) {{.Name}}({{.ArgList}}) {{.ReturnArgTypeList}} {
{{- range .Params}}
	var _ {{.TypeString}}
{{- end}}
{{- range .Returns}}
	var _ {{.TypeString}}
{{- end}}
	{{.ReturnStatement}} {{$w}}.inner.{{.Call}}
}
{{end}}
// (6) ArgTypeList as a func type called with ArgCallListNoEllipsis; ArgCallListSlice; ReturnArgList / ReturnArgNameList; per-parameter strings
{{range $k, $meth := $m.Methods}}
func x_{{$m.Name}}_{{$k}}{{$m.TypeConstraint}}({{.ArgList}}) ({{.ReturnArgList}}) {
	{{- $f := .Scope.AllocateName "f" }}{{ $g := .Scope.AllocateName "g" }}
	var {{$f}} func({{.ArgTypeList}}) {{.ReturnArgTypeList}}
	var {{$g}} func({{.ArgTypeListEllipsis}}) {{.ReturnArgTypeList}}
	_ = func() {
		{{$f}}({{.ArgCallListNoEllipsis}})
		{{$g}}({{.ArgCallList}})
		{{$g}}({{.ArgCallListSlice 0 (len .Params)}})
	}
{{- range .Params}}
	var _ {{.TypeString}} = {{.Name}}
	var _ {{.TypeString}} = {{.CallName false}}
{{- if .Variadic}}
	var _ []{{.TypeStringVariadicUnderlying}} = {{.Name}}
	func(_ {{.TypeStringEllipsis}}) {}({{.CallName true}})
	func({{.MethodArg}}) {}({{.Name}}...)
{{- else}}
	func({{.MethodArg}}) {}({{.Name}})
	var _ {{.TypeStringEllipsis}} = {{.Name}}
	var _ {{.TypeStringVariadicUnderlying}} = {{.Name}}
{{- end}}
{{- end}}
{{- range .Returns}}
	{{- if .Variadic}}
	RESULT_IS_MARKED_VARIADIC_{{.Name}}
	{{- end}}
	var _ {{.TypeString}} = {{.Name}}
	var _ {{.TypeStringEllipsis}} = {{.Name}}
	var _ {{.TypeStringVariadicUnderlying}} = {{.CallName true}}
	func({{.MethodArg}}) {}({{.CallName false}})
{{- end}}
	return {{.ReturnArgNameList}}
}
{{end}}
{{end}}
'''


def gen_cases(ctx):
    base = [c for c in c01.gen_cases(ctx) if c["kind"] != "replace-type"]
    cases = []
    for c in base:
        c = dict(c)
        c["formatter"] = ["gofmt", "noop"][len(cases) % 2]   # never goimports: it would repair a wrong import list
        c["td"] = {}
        cases.append(c)
    # replace-type changes what the data model must say: the type strings of every parameter and result, normalised through the import list the same
    # file reports, against the replacement model (differential run of C13, both placements, every level)
    from . import c13
    rng = ctx.rng
    for j, r in enumerate(c13.REPLACEMENTS[: (4 if ctx.tier == "quick" else len(c13.REPLACEMENTS))]):
        for level in (("root", "iface") if ctx.tier == "quick" else ("root", "pkg", "iface", "cfg", "recparent", "pkg+override")):
            cases.append({"kind": "replace-type", "seed": rng.randrange(1 << 30), "repl": {k: list(v) for k, v in r.items()}, "level": level,
                          "placement": ["inpkg", "outpkg"][j % 2], "builtin_formatter": "gofmt", "template": "data-model", "formatter": "noop"})
    return cases


def assertion_file(info, iface, inpkg):
    srcq = "" if inpkg else "srcq."
    name = iface["name"]
    lines = ["package %s" % info["outpkg"], ""]
    imports = set()
    body = []
    if not iface["tparams"]:
        for re_ in ("Re", "Re2", "Re3", "Re4"):
            body.append("var _ %s%s = (%s%s)(nil)" % (srcq, name, re_, name))
            body.append("var _ %s%s = (%s%s)(nil)" % (re_, name, srcq, name))
        body.append("var _ %s%s = (*W%s)(nil)" % (srcq, name, name))
    else:
        for ta in iface["targs"]:
            rendered = []
            for a in ta:
                for k in gosrc.FOREIGN:
                    if "{%s}" % k in a:
                        a = a.replace("{%s}" % k, "aq_" + k)
                        imports.add(k)
                rendered.append(a)
            inst = "[" + ", ".join(rendered) + "]"
            for re_ in ("Re", "Re2", "Re3", "Re4"):
                body.append("var _ %s%s%s = (%s%s%s)(nil)" % (srcq, name, inst, re_, name, inst))
                body.append("var _ %s%s%s = (%s%s%s)(nil)" % (re_, name, inst, srcq, name, inst))
            body.append("var _ %s%s%s = (*W%s%s)(nil)" % (srcq, name, inst, name, inst))
        if inpkg:
            tp = iface["tparams"]
            names = [p.strip().split()[0] for p in c02.split_tparams(tp)]
            inst = "[" + ", ".join(names) + "]"
            body.append("func _assertRe_%s%s() {\n\tvar _ %s%s = (Re%s%s)(nil)\n\tvar _ Re%s%s = (%s%s)(nil)\n\tvar _ %s%s = (*W%s%s)(nil)\n}" % (
                c02.sanitize(name), tp, name, inst, name, inst, name, inst, name, inst, name, inst, name, inst))
    if not inpkg:
        lines.append('import srcq "%s"' % info["srcpath"])
    for k in sorted(imports):
        lines.append('import aq_%s "%s/ext/%s"' % (k, gosrc.MOD, gosrc.FOREIGN[k][0]))
    if inpkg and iface["tparams"]:
        for k in gosrc.used_imports(iface["tparams"]):
            if k in gosrc.FOREIGN:
                lines.append('import %s "%s/ext/%s"' % (gosrc.Q[k], gosrc.MOD, gosrc.FOREIGN[k][0]))
            else:
                lines.append('import %s "%s"' % (gosrc.Q[k], gosrc.STD[k]))
    return "\n".join(lines) + "\n\n" + "\n\n".join(body) + "\n", len([b for b in body if b.startswith("var _")])


UNUSED_IMPORT = re.compile(r"imported( as \S+)? and not used")


def eval_case(ctx, case):
    if case["kind"] == "replace-type":
        from . import c13
        v = c13.eval_case(ctx, case)
        v.tags = ["replace-type"] + [t for t in v.tags if t.startswith("level=") or t.startswith("placement=")]
        return [(case, v)]
    known = ctx.known
    ifaces = [i for i in c01.case_ifaces(case) if not c02.c01_known(known, "data-model", i["feature"])]
    if case.get("only"):
        ifaces = [i for i in ifaces if i["name"] in case["only"]]
    if not ifaces:
        return [(case, Verdict.skipped("all interfaces of this chunk fall under template-independent known findings"))]
    tmplpath = "file://reemit.templ"
    root, info = mockgen.build_module(ctx, case, ifaces, template=tmplpath, extra_cfg={"require-template-schema-exists": False},
                                      extra_files={"reemit.templ": REEMIT})
    pre = mockgen.precheck(root)
    if pre.exit != 0:
        return [(case, Verdict.inconclusive("generated package rejected by the toolchain: " + (pre.err + pre.out)[-600:]))]
    p = subprocess.run([core.helper_bin("ifaceinfo"), root, "./" + info["srcdir"]], capture_output=True, text=True, env=core.scratch_env())
    try:
        ref = json.loads(p.stdout)
    except Exception:
        return [(case, Verdict.inconclusive("ifaceinfo failed: " + p.stderr[-300:]))]
    ok, failures, r = mockgen.run_generation(ctx, root, info, case, ifaces)
    inpkg = case["placement"] in mockgen.IN_PACKAGE
    tags = ["placement=" + case["placement"], "formatter=" + case["formatter"]]
    by_name = {i["name"]: i for i in ifaces}
    verdicts = []
    for name, ri in failures.items():
        i = by_name[name]
        verdicts.append((dict(case, only=[name], feature=i["feature"]),
                         Verdict.violated("rendering the data model of interface %s (feature %s, %s) through a custom template fails: %s" % (
                             name, i["feature"], case["placement"], "panic" if ri.panicked else "exit %s" % ri.exit),
                             dict(ri.brief(1500), iface=gosrc.render_iface(i)), tags + ["feature=" + i["feature"]])))
    test_suffix = "_test.go" if case["placement"] in ("inpkg-test", "xtest") else ".go"
    afile = {}
    facts = {}
    for name in sorted(ok):
        i = by_name[name]
        text, n = assertion_file(info, i, inpkg)
        fn = "zz_assert_%s%s" % (c02.sanitize(name), test_suffix)
        if n:
            afile[fn] = name
            with open(os.path.join(root, info["outdir"], fn), "w") as f:
                f.write(text)
        out = open(os.path.join(root, mockgen.out_file(info, i, case["placement"])), errors="replace").read()
        m = re.search(r"// IFACE name=(\S+) nmethods=(\d+) methods=(\S*)", out)
        facts[name] = {"nmethods": int(m.group(2)) if m else None, "methods": [x for x in (m.group(3).split(",") if m else []) if x],
                       "imports": re.findall(r"// IMPORT path=(\S+) q=(\S*) pkgq=(\S*)", out)}
    comp = mockgen.compile_all(root, info)
    if comp.timed_out:
        return verdicts + [(case, Verdict.inconclusive("watchdog compile"))]
    per = {}
    if comp.exit != 0:
        text = comp.out + "\n" + comp.err
        byfile = {os.path.basename(mockgen.out_file(info, by_name[n], case["placement"])): n for n in ok}
        byfile.update(afile)
        any_attr = False
        for m in mockgen.ERR_RE.finditer(text):
            fn, msg = os.path.basename(m.group(1)), m.group(4)
            if fn in byfile:
                any_attr = True
                if UNUSED_IMPORT.search(msg):
                    continue   # an import that is reported but not needed by any string does not change what the strings denote
                per.setdefault(byfile[fn], []).append(msg)
        if not any_attr:
            if "import cycle not allowed" in text:
                # the source module compiled before anything was generated: the cycle comes from the imports the data model reported
                return verdicts + [(case, Verdict.violated("source re-emitted with exactly the reported imports gives an import cycle: the data model reports an import of the "
                                                         "destination package itself (placement %s%s)" % (case["placement"], ", working directory reached through a symlink" if case.get("via_symlink") else ""),
                                                         {"compile": text[-800:]}, tags))]
            return verdicts + [(case, Verdict.inconclusive("destination package does not compile for an unattributed reason: " + text[-600:]))]
    for name in sorted(ok):
        i = by_name[name]
        sub = dict(case, only=[name], feature=i["feature"])
        t2 = tags + ["feature=" + i["feature"]]
        f = facts[name]
        want = ref.get(name)
        if want is not None:
            wn = sorted(m["name"] for m in (want["methods"] or []))
            if f["nmethods"] != len(wn) or sorted(f["methods"]) != wn:
                verdicts.append((sub, Verdict.violated("data model of %s lists methods %s, the interface's method set is %s" % (name, f["methods"], wn),
                                                       {"iface": gosrc.render_iface(i)}, t2)))
                continue
        bad_q = [(p, q, pq) for p, q, pq in f["imports"] if q != pq]
        quals = [q for _, q, _ in f["imports"]]
        if bad_q or len(set(quals)) != len(quals):
            verdicts.append((sub, Verdict.violated("import data of %s inconsistent: %s" % (name, f["imports"]), {}, t2)))
            continue
        if name in per:
            verdicts.append((sub, Verdict.violated("Go source re-emitted from the data model of %s (feature %s, %s) is not faithful: %s" % (
                name, i["feature"], case["placement"], per[name][:3]),
                {"errors": per[name][:8], "iface": gosrc.render_iface(i), "kf_key": "c14:%s:%s" % (i["feature"], mockgen.norm_msg(per[name][0]))}, t2)))
        else:
            verdicts.append((sub, Verdict.held({"iface": name, "feature": i["feature"], "methods": f["nmethods"], "imports": len(f["imports"])},
                                               nontrivial=(f["nmethods"] or 0) > 0, tags=t2)))
    return verdicts


def body(ctx, replay=None):
    core.build_mockery(ctx)
    ctx.known = core.KnownFindings.load()
    ctx.rule = ("each evaluation = one interface of the C01 corpus rendered through a re-emitting probe template (Declaration; Name+Signature; ArgList+ReturnArgTypeList; "
                "ArgTypeListEllipsis; forwarding wrapper from Call/ArgCallList with every type string re-declared in the body; ArgTypeList called with "
                "ArgCallListNoEllipsis; ArgCallListSlice; ReturnArgList/ReturnArgNameList; per-Param MethodArg/CallName/TypeString/TypeStringEllipsis/"
                "TypeStringVariadicUnderlying; TypeConstraint/TypeInstantiation; Imports/ImportStatement/Qualifier/PkgQualifier), in and out of package, formatter gofmt/noop; "
                "harness assertions of mutual assignability with the original; method set vs go/types. non-trivial = interface with >= 1 method; distinct = (case, interface)")
    ctx.assumptions = ["mutual assignability decided by the Go type checker = 'denote identical types'", "diagnostics that only say an import is unused are ignored",
                       "lower-case type parameter names are excluded (template-independent known finding of C01)"]
    cases = [replay] if replay is not None else gen_cases(ctx)

    def evaluator(c, case):
        res = eval_case(c, case)
        for sub, v in res[:-1]:
            c.record(sub, v, {"feature": sub.get("feature"), "placement": sub.get("placement")})
        sub, v = res[-1]
        sub = dict(sub)
        case.clear()
        case.update(sub)
        return v

    ctx.run_cases(cases, evaluator, stop_after_violations=300, view=lambda c: {"feature": c.get("feature"), "placement": c.get("placement")})
    return ctx.finish()


if __name__ == "__main__":
    core.main_wrapper("C14", "exploration", body)
