"""C13 — replace-type substitutes exactly the configured types.

Planes P1 + P2, differential: the same interfaces are rendered by a probe template without and
with replace-type; every parameter/result type string is normalised to import paths using the
import list the same file reports, and compared with the model (exact named-type matches are
replaced, everything else is untouched). The built-in templates are then run with formatter
gofmt/noop on the same configuration and the result is compiled (no leftover import of the
original package, replacement import present). The setting is written at each level.
"""
import json
import os
import random
import re

from . import core
from .core import Verdict

MOD = "example.com/m"

SIGPROBE = ('// PROBE-ID: S\n\npackage {{.PkgName}}\n\n'
            '{{range .Imports}}// PROBE|IMPORT|path={{.Path}}|q={{.Qualifier}}|END\n{{end}}'
            '{{range $i, $m := .Interfaces}}// PROBE|IFACE|name={{$m.Name}}|struct={{$m.StructName}}|END\n'
            '{{range $m.Methods}}{{$meth := .}}// PROBE|METHOD|iface={{$m.Name}}|name={{.Name}}|variadic={{.IsVariadic}}|END\n'
            '{{range $k, $p := .Params}}// PROBE|P|iface={{$m.Name}}|method={{$meth.Name}}|kind=param|idx={{$k}}|type={{$p.TypeString}}|END\n{{end}}'
            '{{range $k, $p := .Returns}}// PROBE|P|iface={{$m.Name}}|method={{$meth.Name}}|kind=result|idx={{$k}}|type={{$p.TypeString}}|END\n{{end}}'
            '{{end}}{{end}}')

ORIG = "package orig\n\ntype T struct{ V int }\n\ntype Other int\n\ntype A = T\n\ntype G[X any] struct{ V X }\n\ntype I interface{ M() }\n"
PKGS = {
    "orig": ORIG, "ext/model": "package model\n\ntype T struct{ M int }\n",
    "repa": "package repa\n\ntype R1 struct{ A int }\n\ntype R2 int\n\ntype RA = R1\n", "repb": "package repb\n\nimport \"time\"\n\ntype U struct{ B int }\n\ntype Dur = time.Duration\n\ntype R1 struct{ Z string }\n\ntype R2 float64\n",
    "rep/model": "package model\n\ntype R struct{ C int }\n",
    # replacement packages whose name is not the last element of their import path (major-version suffix, go- prefix)
    "rep/lib/v2": "package lib\n\ntype R struct{ D int }\n", "rep/go-c": "package c\n\ntype N int\n",
}
# candidate parameter types: (source text, key of the exact named type it *is*, or None)
TYPES = [("orig.T", "T"), ("orig.Other", "Other"), ("orig.A", "A"), ("[]orig.T", None), ("*orig.T", None), ("map[string]orig.T", None), ("map[orig.Other]orig.T", None),
         ("func(orig.T) orig.T", None), ("chan orig.T", None), ("orig.G[orig.T]", None), ("[2]orig.T", None), ("struct{ F orig.T }", None), ("interface{ X(orig.T) }", None),
         ("model.T", None), ("int", None), ("string", None), ("error", None), ("orig.I", None), ("*orig.Other", None), ("[]orig.A", None)]


def gen_ifaces(rng):
    ifaces = []
    fixed = [
        ("Alone", [("M", [("x", "orig.T")], ["orig.T"], False)]),
        ("Mixed", [("M", [("x", "orig.T"), ("y", "orig.Other"), ("zs", "[]orig.T"), ("p", "*orig.T"), ("m", "map[string]orig.T"), ("f", "func(orig.T) orig.T"), ("c", "chan orig.T")],
                    ["orig.T", "*orig.T", "error"], False)]),
        ("Variadic", [("V", [("xs", "orig.T")], [], True), ("W", [("a", "orig.T"), ("bs", "orig.Other")], ["orig.Other"], True)]),
        ("AliasUse", [("M", [("a", "orig.A")], ["orig.A", "orig.T"], False)]),
        ("Generic", [("M", [("g", "orig.G[orig.T]")], ["orig.G[orig.Other]"], False)]),
        ("OnlyOther", [("M", [("y", "orig.Other")], ["orig.Other"], False)]),
        ("WithModel", [("M", [("t", "orig.T"), ("m", "model.T")], ["model.T", "orig.T"], False)]),
        ("Unnamed", [("M", [(None, "orig.T"), (None, "orig.Other")], ["orig.T"], False)]),
        # parameter names equal to the qualifiers of the replacement packages: must not capture them in the method body
        ("Shadow", [("S", [("repa", "orig.T"), ("repb", "orig.Other"), ("model", "orig.A")], ["orig.T", "orig.Other", "error"], False),
                    ("V", [("model", "orig.T"), ("repa", "orig.Other")], ["orig.A"], True)]),
    ]
    for name, ms in fixed:
        ifaces.append({"name": name, "methods": [{"name": m[0], "params": [list(p) for p in m[1]], "results": list(m[2]), "variadic": m[3]} for m in ms], "embeds": []})
    ifaces.append({"name": "Embeds", "methods": [{"name": "N", "params": [["t", "orig.T"]], "results": [], "variadic": False}], "embeds": ["Alone"]})
    # a type declared in the interfaces' own package is replaced too; a type *parameter* that happens to carry the same identifier is not that type
    ifaces.append({"name": "UsesLocal", "methods": [{"name": "M", "params": [["l", "LT"], ["n", "int"]], "results": ["LT", "error"], "variadic": False}], "embeds": []})
    ifaces.append({"name": "GenShadow", "tparams": "[LT any, Other comparable]", "tnames": ["LT", "Other"],
                   "methods": [{"name": "Get", "params": [["x", "LT"], ["k", "Other"]], "results": ["LT"], "variadic": False},
                               {"name": "Real", "params": [["t", "orig.T"]], "results": ["orig.Other"], "variadic": False}], "embeds": []})
    for k in range(rng.randint(2, 5)):
        ms = []
        for j in range(rng.randint(1, 3)):
            ps = [["p%d" % q, rng.choice(TYPES)[0]] for q in range(rng.randint(0, 4))]
            rs = [rng.choice(TYPES)[0] for _ in range(rng.randint(0, 3))]
            ms.append({"name": "R%d" % j, "params": ps, "results": rs, "variadic": bool(ps) and rng.random() < 0.2})
        ifaces.append({"name": "Rand%d" % k, "methods": ms, "embeds": []})
    return ifaces


def diamond_files(depth):
    """a layered dependency graph: every package of a layer imports both packages of the layer below (2^depth import paths, 2*depth packages)"""
    out = {}
    for d in range(depth):
        for x in "ab":
            imp = "" if d == depth - 1 else 'import (\n\t"%s/dg/l%02da"\n\t"%s/dg/l%02db"\n)\n\nvar _ = l%02da.V + l%02db.V\n\n' % (MOD, d + 1, MOD, d + 1, d + 1, d + 1)
            out["dg/l%02d%s/t.go" % (d, x)] = "package l%02d%s\n\n%svar V = %d\n" % (d, x, imp, d)
    return out


def render_src(ifaces, diamond=False):
    lines = ["package svc", "", 'import (', '\t"example.com/m/ext/model"', '\t"example.com/m/orig"'] + (['\t"example.com/m/dg/l00a"', '\t"example.com/m/dg/l00b"'] if diamond else []) + \
            [")", "", "var _ model.T", "var _ orig.T"] + (["var _ = l00a.V + l00b.V"] if diamond else []) + ["", "type LT struct{ L int }", ""]
    for i in ifaces:
        lines.append("type %s%s interface {" % (i["name"], i.get("tparams", "")))
        for e in i["embeds"]:
            lines.append("\t" + e)
        for m in i["methods"]:
            ps = []
            for n, (pn, pt) in enumerate(m["params"]):
                t = ("..." + pt) if (m["variadic"] and n == len(m["params"]) - 1) else pt
                ps.append(("%s %s" % (pn, t)) if pn else t)
            rs = m["results"]
            res = "" if not rs else (" (" + ", ".join(rs) + ")")
            lines.append("\t%s(%s)%s" % (m["name"], ", ".join(ps), res))
        lines.append("}\n")
    return "\n".join(lines)


SRCQ = {"orig": MOD + "/orig", "model": MOD + "/ext/model"}


def norm_src(t):
    """source-context type string -> import-path-qualified form"""
    return re.sub(r"\b(orig|model)\.", lambda m: "<" + SRCQ[m.group(1)] + ">.", t)


def norm_probe(t, imports):
    # imports: qualifier -> path (of the same file)
    def rep(m):
        q = m.group(1)
        return ("<" + imports[q] + ">.") if q in imports else m.group(0)
    return re.sub(r"\b([A-Za-z_][A-Za-z0-9_]*)\.", rep, t)


LOCAL_REPL = {"LT": ("repa", "R1")}   # replacement of the type declared in package svc itself (always part of the setting)


ALT_TARGETS = [("repb", "R2"), ("repa", "R2"), ("rep/model", "R"), ("repb", "U"), ("repa", "R1")]


def alt_repl(repl, local_repl):
    """a second replacement map for the same source types with a different target for each (used by an interface that overrides its package's setting)"""
    out = {}
    for n, (k, v) in enumerate(sorted(repl.items())):
        out[k] = [t for t in ALT_TARGETS[n % len(ALT_TARGETS):] + ALT_TARGETS if tuple(t) != tuple(v)][0]
    loc = {k: [t for t in ALT_TARGETS[3:] + ALT_TARGETS if tuple(t) != tuple(v)][0] for k, v in local_repl.items()}
    return out, loc


def expected_types(iface, by_name, repl, inpkg=True, local=False, local_repl=None):
    """method set of iface -> {(method, kind, idx): normalised type} under replacement map repl {typeName: (path, name)};
    `local`: the svc.LT replacement is in force; `inpkg`: how an unreplaced svc type is named from the output file"""
    out = {}
    tnames = set(iface.get("tnames") or [])

    def add_methods(i):
        for e in i["embeds"]:
            add_methods(by_name[e])
        for m in i["methods"]:
            for k, (pn, pt) in enumerate(m["params"]):
                last_var = m["variadic"] and k == len(m["params"]) - 1
                out[(m["name"], "param", k)] = one(pt, last_var)
            for k, rt in enumerate(m["results"]):
                out[(m["name"], "result", k)] = one(rt, False)

    def one(t, variadic):
        if variadic:
            return "[]" + norm_src(t)      # a variadic parameter's type is the slice: never an exact match
        if t in tnames:
            return t                        # a type parameter, whatever named type shares its identifier
        if t == "LT":
            if local:
                lr = (local_repl or LOCAL_REPL)["LT"]
                return "<%s/%s>.%s" % (MOD, lr[0], lr[1])
            return "LT" if inpkg else "<%s/svc>.LT" % MOD
        m = re.fullmatch(r"orig\.(\w+)", t)
        if m and m.group(1) in repl:
            path, name = repl[m.group(1)]
            return "<%s>.%s" % (path, name)
        return norm_src(t)
    add_methods(iface)
    return out


REPLACEMENTS = [
    {"T": ("repa", "R1")}, {"T": ("repa", "R1"), "Other": ("repa", "R2")}, {"T": ("rep/model", "R")}, {"A": ("repb", "U")}, {"T": ("repa", "RA")}, {"Other": ("repb", "Dur")},
    {"T": ("repb", "U"), "A": ("repa", "R1"), "Other": ("rep/model", "R")},
    # two targets with the same type name in different packages: the configured pkg-path selects the package
    {"T": ("repa", "R1"), "Other": ("repb", "R1")}, {"T": ("repb", "R2"), "A": ("repa", "R2"), "Other": ("repb", "R1")},
    # the replacement is the first thing to bring a package into the file whose name cannot be read off its import path
    {"T": ("rep/lib/v2", "R"), "Other": ("rep/go-c", "N")},
]


def gen_cases(ctx):
    rng = ctx.rng
    cases = []
    n = 2 if ctx.tier == "quick" else 10
    for rep in range(n):
        for ri, r in enumerate(REPLACEMENTS):
            for level in ("root", "pkg", "iface", "cfg", "root+iface", "recparent", "pkg+override"):
                c = {"seed": rng.randrange(1 << 30), "repl": {k: list(v) for k, v in r.items()}, "level": level,
                     "placement": rng.choice(["inpkg", "outpkg"]), "builtin_formatter": rng.choice(["gofmt", "noop", "goimports"])}
                if level == "pkg+override":
                    c["onefile"] = rep == 0 or c["seed"] % 2 == 0   # the witness: both maps meet in one output file
                cases.append(c)
    # the source package sits on top of a deep layered dependency graph; the replacement packages are not part of it
    for k, level in enumerate(("root", "iface")):
        cases.append({"seed": 1000 + k, "repl": {"T": ["repa", "R1"], "Other": ["repb", "R1"]}, "level": level, "placement": ["inpkg", "outpkg"][k], "builtin_formatter": "gofmt", "diamond": 36})
    for k, level in enumerate(("root", "pkg", "iface")):
        cases.append({"kind": "foreign", "seed": k, "level": level, "builtin_formatter": ["gofmt", "noop", "goimports"][k]})
    return cases


def parse_sig(path):
    imports, types = {}, {}
    for line in open(path, errors="replace"):
        line = line.strip()
        if not line.startswith("// PROBE|"):
            continue
        body = line[len("// PROBE|"):]
        if not body.endswith("|END"):
            continue
        body = body[:-4]
        kind, _, rest = body.partition("|")
        if kind == "IMPORT":
            f = dict(p.split("=", 1) for p in rest.split("|"))
            imports[f["q"]] = f["path"]
        elif kind == "P":
            head, _, typ = rest.partition("|type=")
            f = dict(p.split("=", 1) for p in head.split("|"))
            types[(f["iface"], f["method"], f["kind"], int(f["idx"]))] = typ
    return imports, types


def eval_foreign(ctx, case):
    """the mocked interfaces live OUTSIDE the main module (standard library): the replacement package is still one of the user's own"""
    files = {k + "/t.go": v for k, v in PKGS.items()}
    files["sig.templ"] = SIGPROBE
    files["use/use.go"] = "package use\n\nimport (\n\t\"io\"\n\n\t\"example.com/m/repa\"\n)\n\nvar _ io.Reader\nvar _ repa.R1\n"
    rt = {"io": {"Reader": {"pkg-path": MOD + "/repa", "type-name": "R1"}}}
    ifs = {"ReaderFrom": None, "WriterTo": None, "ReadWriter": None}
    cfg = {"template": "file://sig.templ", "require-template-schema-exists": False, "formatter": "noop", "dir": "mocks/iomocks", "pkgname": "iomocks",
           "filename": "sig_{{.InterfaceName}}.txt", "packages": {"io": {"interfaces": ifs}}}
    lvl = case["level"]
    if lvl == "root":
        cfg["replace-type"] = rt
    elif lvl == "pkg":
        cfg["packages"]["io"]["config"] = {"replace-type": rt}
    else:
        for k in ifs:
            ifs[k] = {"config": {"replace-type": rt}}
    files[".mockery.yml"] = json.dumps(cfg)
    root = core.scratch_module(ctx, files)
    tags = ["source-package=standard-library", "level=" + lvl]
    r = core.run_mockery(ctx, root, [], timeout=600)
    if r.timed_out:
        return Verdict.inconclusive("watchdog")
    if r.panicked or r.exit != 0:
        return Verdict.violated("mockery failed on a valid replace-type configuration for interfaces of package io (exit %s)" % r.exit, dict(r.brief(1500), config=cfg), tags)
    want = {("ReaderFrom", "ReadFrom", "param", 0): "<%s/repa>.R1" % MOD, ("ReaderFrom", "ReadFrom", "result", 0): "int64", ("ReaderFrom", "ReadFrom", "result", 1): "error",
            ("WriterTo", "WriteTo", "param", 0): "<io>.Writer", ("WriterTo", "WriteTo", "result", 0): "int64", ("WriterTo", "WriteTo", "result", 1): "error",
            ("ReadWriter", "Read", "param", 0): "[]byte", ("ReadWriter", "Write", "param", 0): "[]byte"}
    checked = 0
    for nm in ifs:
        imports, types = parse_sig(os.path.join(root, "mocks/iomocks", "sig_%s.txt" % nm))
        for key, w in want.items():
            if key[0] != nm:
                continue
            got = types.get(key)
            g = re.sub(r"\s+", "", norm_probe(got, imports)) if got is not None else None
            if g != w:
                return Verdict.violated("interface io.%s with replace-type io.Reader -> repa.R1 at %s: %s %s %d is rendered as %r, model %r" % (nm, lvl, key[1], key[2], key[3], g, w),
                                        {"imports": imports}, tags)
            checked += 1
    # the built-in templates on the same configuration must compile
    for tmpl in ("testify", "matryer"):
        c2 = dict(cfg, template=tmpl, formatter=case["builtin_formatter"], filename="%s_{{.InterfaceName}}.go" % tmpl, structname=("T" if tmpl == "testify" else "Q") + "Mock{{.InterfaceName}}")
        c2.pop("require-template-schema-exists")
        c2["force-file-write"] = True
        if tmpl == "matryer":
            c2["template-data"] = {"skip-ensure": True}
        with open(os.path.join(root, ".mockery.yml"), "w") as f:
            f.write(json.dumps(c2))
        r = core.run_mockery(ctx, root, [], timeout=600)
        if r.timed_out:
            return Verdict.inconclusive("watchdog")
        if r.panicked or r.exit != 0:
            return Verdict.violated("%s template failed with replace-type on interfaces of package io (exit %s)" % (tmpl, r.exit), dict(r.brief(1500), config=c2), tags)
        comp = core.go_compile(root)
        if comp.timed_out:
            return Verdict.inconclusive("watchdog compile")
        if comp.exit != 0:
            return Verdict.violated("%s mocks of io interfaces generated with replace-type do not compile" % tmpl, dict(comp.brief(2000)), tags)
    return Verdict.held({"types_compared": checked, "interfaces": len(ifs)}, tags=tags)


def eval_case(ctx, case):
    if case.get("kind") == "foreign":
        return eval_foreign(ctx, case)
    rng = random.Random(case["seed"])
    ifaces = gen_ifaces(rng)
    by_name = {i["name"]: i for i in ifaces}
    files = {k + "/t.go": v for k, v in PKGS.items()}
    files["svc/svc.go"] = render_src(ifaces, diamond=bool(case.get("diamond")))
    if case.get("diamond"):
        files.update(diamond_files(case["diamond"]))
    files["sig.templ"] = SIGPROBE
    rt = {MOD + "/orig": {k: {"pkg-path": MOD + "/" + v[0], "type-name": v[1]} for k, v in case["repl"].items()},
          MOD + "/svc": {k: {"pkg-path": MOD + "/" + v[0], "type-name": v[1]} for k, v in LOCAL_REPL.items()}}
    target = [i["name"] for i in ifaces]
    alt, alt_local = alt_repl({k: tuple(v) for k, v in case["repl"].items()}, LOCAL_REPL)
    rt2 = {MOD + "/orig": {k: {"pkg-path": MOD + "/" + v[0], "type-name": v[1]} for k, v in alt.items()},
           MOD + "/svc": {k: {"pkg-path": MOD + "/" + v[0], "type-name": v[1]} for k, v in alt_local.items()}}
    overriders = set(target[1::2]) if case["level"] == "pkg+override" else set()
    onefile = case["onefile"] if "onefile" in case else case["seed"] % 2 == 0   # all interfaces of the package in ONE output file: per-file state must not leak a decision from one mock to the next
    base = {"template": "file://sig.templ", "require-template-schema-exists": False, "formatter": "noop",
            "filename": "sig_all.txt" if onefile else "sig_{{.InterfaceName}}.txt"}
    if case["placement"] == "outpkg":
        base.update({"dir": "mocks/svcmocks", "pkgname": "svcmocks"})
    # where the setting is written; `Untouched*` interfaces sit outside its scope when it is written at interface level
    def config(with_rt, template=None, formatter=None, filename=None):
        cfg = dict(base)
        if template:
            cfg.update({"template": template, "formatter": formatter, "filename": filename})
            cfg.pop("require-template-schema-exists")
        pk = {"config": {}, "interfaces": {}}
        for nm in target:
            pk["interfaces"][nm] = {"config": {}}
        lvl = case["level"]
        scoped_all = True
        if with_rt:
            if "root" in lvl:
                cfg["replace-type"] = rt
            if lvl in ("pkg", "pkg+override"):
                pk["config"]["replace-type"] = rt
            # every second interface overrides the package's map with other targets for the same source types: the whole more specific map is in force for it
            for nm in overriders:
                pk["interfaces"][nm]["config"]["replace-type"] = rt2
        if lvl == "recparent":
            # written in the config of a recursive package above: reaches the explicitly listed sub-package, its listed and its unlisted interfaces alike
            pk["config"]["all"] = True
            for nm in target[1::2]:
                pk["interfaces"].pop(nm)
        if with_rt:
            pass
            if "iface" in lvl or lvl == "cfg":
                scoped_all = "root" in lvl
                for nm in target:
                    if nm in ("OnlyOther", "Rand0") and not scoped_all:
                        continue   # siblings that must stay as without the setting
                    if lvl == "cfg":
                        pk["interfaces"][nm]["configs"] = [{"replace-type": rt}]
                    else:
                        pk["interfaces"][nm]["config"]["replace-type"] = rt
        cfg["packages"] = {MOD + "/svc": pk}
        if lvl == "recparent":
            cfg["packages"][MOD] = {"config": dict({"recursive": True}, **({"replace-type": rt} if with_rt else {}))}
        return cfg, scoped_all
    results = {}
    for with_rt in (False, True):
        cfg, scoped_all = config(with_rt)
        files[".mockery.yml"] = json.dumps(cfg)
        root = core.scratch_module(ctx, files)
        r = core.run_mockery(ctx, root, [], timeout=600)
        if r.timed_out:
            return Verdict.inconclusive("watchdog")
        if r.panicked or r.exit != 0:
            return Verdict.violated("mockery failed on a valid replace-type configuration (with_rt=%s, exit %s)" % (with_rt, r.exit), dict(r.brief(1500), config=cfg))
        outdir = os.path.join(root, "mocks/svcmocks" if case["placement"] == "outpkg" else "svc")
        per = {}
        for nm in target:
            per[nm] = parse_sig(os.path.join(outdir, "sig_all.txt" if onefile else "sig_%s.txt" % nm))
        results[with_rt] = (per, scoped_all, root)
    tags = ["level=" + case["level"], "placement=" + case["placement"], "repl=" + "+".join(sorted(case["repl"]))]
    repl = {k: (MOD + "/" + v[0], v[1]) for k, v in case["repl"].items()}
    repl2 = {k: (MOD + "/" + v[0], v[1]) for k, v in alt.items()}
    checked = 0
    for with_rt in (False, True):
        per, scoped_all, _ = results[with_rt]
        for nm in target:
            in_scope = with_rt and (scoped_all or nm not in ("OnlyOther", "Rand0"))
            over = with_rt and nm in overriders
            exp = expected_types(by_name[nm], by_name, (repl2 if over else repl) if in_scope else {}, inpkg=case["placement"] == "inpkg", local=in_scope,
                                 local_repl=alt_local if over else None)
            imports, types = per[nm]
            got = {(m, k, i): re.sub(r"\s+", "", norm_probe(t, imports)) for (ifn, m, k, i), t in types.items() if ifn == nm}
            exp = {k: re.sub(r"\s+", "", v) for k, v in exp.items()}
            if got != exp:
                diff = {str(k): (got.get(k), exp.get(k)) for k in set(got) | set(exp) if got.get(k) != exp.get(k)}
                return Verdict.violated("interface %s %s replace-type (%s at %s): rendered types differ from the model: %s" % (
                    nm, "with" if with_rt else "without", case["repl"], case["level"], dict(list(diff.items())[:4])),
                    {"imports": imports, "diff": diff, "in_scope": in_scope}, tags)
            # the replacement's package must be imported, the original only if still referenced
            if with_rt:
                used_paths = set(re.findall(r"<([^>]+)>\.", " ".join(exp.values())))
                if case["placement"] == "inpkg":
                    used_paths.discard(MOD + "/svc")
                missing = [p for p in used_paths if p not in imports.values()]
                if missing:
                    return Verdict.violated("interface %s: file does not import %s although the rendered types need it" % (nm, missing), {"imports": imports}, tags)
            checked += len(exp)
    # built-in templates on the same configuration must compile (formatter without import repair included)
    _, _, root = results[True]
    for tmpl in ("testify", "matryer"):
        cfg, _ = config(True, template=tmpl, formatter=case["builtin_formatter"], filename=("%s_all.go" % tmpl) if onefile else ("%s_{{.InterfaceName}}.go" % tmpl))
        cfg["force-file-write"] = True
        cfg["structname"] = ("T" if tmpl == "testify" else "Q") + "Mock{{.InterfaceName}}"
        if tmpl == "matryer":
            cfg["template-data"] = {"skip-ensure": True}   # a mock with replaced types is, by design, no longer assignable to the original interface
        with open(os.path.join(root, ".mockery.yml"), "w") as f:
            f.write(json.dumps(cfg))
        r = core.run_mockery(ctx, root, [], timeout=600)
        if r.timed_out:
            return Verdict.inconclusive("watchdog")
        if r.panicked or r.exit != 0:
            return Verdict.violated("%s template failed with replace-type (exit %s)" % (tmpl, r.exit), dict(r.brief(1500), config=cfg), tags)
        comp = core.go_compile(root)
        if comp.timed_out:
            return Verdict.inconclusive("watchdog compile")
        if comp.exit != 0:
            return Verdict.violated("%s mocks generated with replace-type (%s, formatter %s) do not compile: %s" % (
                tmpl, case["repl"], case["builtin_formatter"], [m.group(4) for m in __import__("re").finditer(r"([^\s:]+\.go):(\d+):(\d+): (.*)", comp.out + comp.err)][:3]),
                dict(comp.brief(2000)), tags + ["formatter=" + case["builtin_formatter"]])
    return Verdict.held({"types_compared": checked, "interfaces": len(target)}, tags=tags + ["formatter=" + case["builtin_formatter"]])


def body(ctx, replay=None):
    core.build_mockery(ctx)
    ctx.rule = ("each case = a package of 11-14 interfaces (the replaceable type alone, next to other types of the same package, inside slices/pointers/maps/funcs/chans/"
                "generic arguments/anonymous structs and interfaces, as variadic element, through an alias, promoted through embedding, next to a same-named import, "
                "plus random methods) x 7 replacement maps (one or several type names, two names into one package, alias targets, a replacement package named like an "
                "existing import) x level {root, package, interface config, configs entry, root+interface} x placement; run without and with the setting through a "
                "probe, every type compared after normalising qualifiers to import paths; then testify and matryer with gofmt/noop/goimports compiled. "
                "non-trivial = every case; distinct = case hash")
    ctx.assumptions = ["an exact match is a parameter/result whose type is the named (or alias) type itself; composites and variadic elements are not",
                       "comparison is on denoted types (qualifiers normalised through the file's own import list), not on text"]
    cases = [replay] if replay is not None else gen_cases(ctx)
    ctx.run_cases(cases, eval_case)
    return ctx.finish()


if __name__ == "__main__":
    core.main_wrapper("C13", "exploration", body)
