"""C18 — `mockery init` bootstraps safely and its output round-trips.

Plane P1: the real binary is run in scratch directories; the monitor takes before/after
snapshots of the whole directory, reads the written file back with yaml.v3 (y2j), feeds it to
`mockery showconfig`, and for real scratch packages runs a plain `mockery` + `go vet` on top.
"""
import json
import os
import subprocess

from . import core
from .core import Verdict

DOCUMENTED_DEFAULTS = {  # docs/configuration.md, `mockery init` example
    "all": False, "dir": "{{.InterfaceDir}}", "filename": "mocks_test.go", "force-file-write": False,
    "formatter": "goimports", "log-level": "info", "structname": "{{.Mock}}{{.InterfaceName}}",
    "pkgname": "{{.SrcPackageName}}", "recursive": False, "template": "testify",
}

YAML_HOSTILE = [
    "example.com/x: y", "example.com/x #frag", "*anchor", "&anchor", "!tag", "|literal", ">folded", "'single", '"double',
    "%percent", "@at", "`tick", "{a: b}", "[a, b]", "null", "~", "true", "no", "yes", "123", "1.5", "0x1F", "1e3",
    " leading", "trailing ", "tab\tinside", "ünïcödé/пакет", "a" * 300, "? q", "a, b", "x:y", "key:", ":", "#", "a\\b",
    "a\"b'c", "- dash", "example.com/a b/c", "2024-01-01", "=", "<<", "a\nb", "\nleading-line-break", "\t tab-then\nbreak", "é", "a: |", "x y", "{{.X}}",
]

TARGETS = ["default", "nested", "absolute", "yaml", "dotslash"]
STATES = ["absent", "empty", "bytes", "valid", "directory", "dangling", "readonly", "noparent", "fifo"]


def roundtrip_key(pkg):
    if "\n" in pkg:
        return "init-roundtrip:class=contains-line-break"
    return "init-roundtrip:pkg=%s" % pkg


def y2j(path):
    p = subprocess.run([core.helper_bin("y2j"), path], capture_output=True, text=True)
    if p.returncode != 0:
        return None, p.stderr
    return json.loads(p.stdout), ""


SRC_VARIANTS = [
    {"p1/a.go": "package p1\n\ntype Reader interface{ Read(b []byte) (int, error) }\n\ntype writer interface{ Write(s string) }\n\ntype S struct{}\n",
     "p1/b.go": "package p1\n\nimport \"context\"\n\ntype Doer[T any] interface{ Do(ctx context.Context, v T) (T, error) }\n\ntype F func()\n",
     "p2/c.go": "package p2\n\ntype Other interface{ M() }\n"},
    {"p1/a.go": "package p1\n\ntype A interface{ M(xs ...int) }\n\ntype B interface {\n\tA\n\tN() map[string]A\n}\n",
     "p2/c.go": "package p2\n\ntype Other interface{ M() }\n"},
    {"p1/a.go": "package p1\n\nfunc f() { type L interface{ X() }; var _ L }\n\ntype Only interface{ Get(k string) (v any, ok bool) }\n",
     "p2/c.go": "package p2\n\ntype Other interface{ M() }\n"},
]
SRC_IFACES = [{"Reader": "MockReader", "writer": "mockwriter", "Doer": "MockDoer"}, {"A": "MockA", "B": "MockB"}, {"Only": "MockOnly"}]


def gen_cases(ctx):
    rng = ctx.rng
    cases = []
    i = 0
    # (1) initial states x targets with a plain package string
    for st in STATES:
        for tg in TARGETS:
            if ctx.tier == "quick" and rng.random() < 0.35 and st not in ("absent", "bytes"):
                continue
            cases.append({"i": i, "kind": "state", "state": st, "target": tg, "pkg": "example.com/m/p1", "variant": rng.randrange(3)})
            i += 1
    # (2) hostile package strings, target absent
    pool = list(YAML_HOSTILE)
    extra = 0 if ctx.tier == "quick" else 400
    alphabet = [":", " ", "#", "-", "?", "*", "&", "!", "|", ">", "'", '"', "%", "@", "`", "{", "}", "[", "]", ",", "\t", "\\", "/", ".",
                "a", "Z", "0", "9", "~", "é", "日", "=", "<", "\n", "_", "n", "y"]
    for _ in range(extra):
        pool.append("".join(rng.choice(alphabet) for _ in range(rng.randint(1, 9))))
    for s in pool:
        if s.startswith("-") and not s.startswith("- "):
            continue
        cases.append({"i": i, "kind": "string", "state": "absent", "target": rng.choice(TARGETS), "pkg": s, "variant": 0})
        i += 1
    for c in cases:
        c["env"] = rng.random() < 0.3
    # (3) full bootstrap on real scratch packages
    n = 3 if ctx.tier == "quick" else 12
    for k in range(n):
        cases.append({"i": i, "kind": "bootstrap", "state": "absent", "target": rng.choice(["default", "yaml", "dotslash"]) if k else "default",
                      "pkg": "example.com/m/p1", "variant": k % 3, "env": k % 2 == 1})
        i += 1
    for k in range(4 if ctx.tier == "quick" else 12):
        # the ancestor's file under both spellings: the name `init` writes (.mockery.yml) is the second one the search looks for
        cases.append({"i": i, "kind": "bootstrap", "state": "absent", "target": ["default", "default", "yaml", "default"][k % 4], "pkg": "example.com/m/p1", "variant": k % 3, "env": False,
                      "ancestor_config": True, "ancestor_name": [".mockery.yaml", ".mockery.yml"][k % 2]})
        i += 1
    return cases


def eval_case(ctx, case):
    files = dict(SRC_VARIANTS[case["variant"]])
    root = core.scratch_module(ctx, files)
    if case.get("ancestor_config"):
        # the module lives inside a larger repository that has a mockery config of its own further up: the file init writes here is the nearest one
        outer = root
        inner = os.path.join(outer, "services", "billing")
        tmp = outer + ".inner"
        os.rename(outer, tmp)
        os.makedirs(os.path.dirname(inner))
        os.rename(tmp, inner)
        with open(os.path.join(outer, case.get("ancestor_name", ".mockery.yml")), "w") as f:
            f.write("all: true\npackages:\n  example.com/outer/does/not/exist: {}\n")
        root = inner
    tg = case["target"]
    arg = None
    if tg == "default":
        target = os.path.join(root, ".mockery.yml")
    elif tg == "nested":
        os.makedirs(os.path.join(root, "conf", "deep"))
        arg = "conf/deep/my.yml"
        target = os.path.join(root, arg)
    elif tg == "absolute":
        target = os.path.join(root, "abs-config.yml")
        arg = target
    elif tg == "yaml":
        arg = ".mockery.yaml"
        target = os.path.join(root, arg)
    else:
        arg = "./.mockery.yml"
        target = os.path.join(root, ".mockery.yml")
    st = case["state"]
    existed = True
    if st == "absent":
        existed = False
    elif st == "empty":
        open(target, "w").close()
    elif st == "bytes":
        with open(target, "wb") as f:
            f.write(b"\x00\xff not yaml: [\n")
    elif st == "valid":
        with open(target, "w") as f:
            f.write("all: true\npackages:\n  example.com/m/p2: {}\n")
    elif st == "directory":
        os.makedirs(target)
        open(os.path.join(target, "keep"), "w").write("k")
    elif st == "dangling":
        os.symlink(os.path.join(root, "does-not-exist"), target)
    elif st == "readonly":
        with open(target, "w") as f:
            f.write("# mine\n")
        os.chmod(target, 0o444)
    elif st == "fifo":
        os.mkfifo(target)   # a named pipe nobody writes to: whoever opens it for reading waits forever
    elif st == "noparent":
        existed = False
        arg = "missing-dir/sub/conf.yml"
        target = os.path.join(root, arg)
    before = core.snapshot(root)
    args = ["init"]
    if arg is not None:
        args += ["--config", arg]
    pkg = case["pkg"]
    if pkg.startswith("-"):
        args.append("--")
    args.append(pkg)
    env = {}
    if case.get("env"):
        # MOCKERY_* variables configure a *run*; the file init writes must still state the documented defaults
        env = {"MOCKERY_TEMPLATE": "matryer", "MOCKERY_LOG_LEVEL": "debug", "MOCKERY_FORCE_FILE_WRITE": "true", "MOCKERY_FORMATTER": "noop",
               "MOCKERY_DIR": "elsewhere", "MOCKERY_ALL": "true", "MOCKERY_RECURSIVE": "true"}
    r = core.run_mockery(ctx, root, args, env_extra=env, timeout=120, block_window=15 if st == "fifo" else None)
    if r.blocked:
        return Verdict.violated("init neither failed nor finished: every thread of the process slept without consuming CPU for 15 consecutive samples (target state %s)" % st,
                                dict(r.brief(), target_state=st), ["state=" + st, "blocked"])
    if r.timed_out:
        return Verdict.inconclusive("watchdog")
    after = core.snapshot(root)
    diff = core.snap_diff(before, after)
    rel = os.path.relpath(target, root)
    obs = {"exit": r.exit, "changed": sorted(diff), "target": rel}
    tags = ["state=" + st, "target=" + tg, "kind=" + case["kind"]] + (["env=MOCKERY_*"] if case.get("env") else []) + (["ancestor-config"] if case.get("ancestor_config") else [])
    if r.panicked:
        return Verdict.violated("init crashed with a Go panic", dict(obs, **r.brief()), tags)
    if existed:
        if diff:
            return Verdict.violated("target path existed (%s) but the tree changed: %s" % (st, {k: v for k, v in diff.items()}), dict(obs, **r.brief()), tags)
        if r.exit == 0:
            return Verdict.violated("target path existed (%s) but init exited 0" % st, dict(obs, **r.brief()), tags)
        return Verdict.held(obs, tags=tags)
    if st == "noparent":
        # nothing is promised about creating parents; only: no crash, nothing else touched, consistent status
        others = [k for k in diff if not (k == rel or rel.startswith(k))]
        if others:
            return Verdict.violated("init touched unrelated paths %s" % others, dict(obs, **r.brief()), tags)
        if r.exit == 0 and not os.path.isfile(target):
            return Verdict.violated("exit 0 but no config file was written", dict(obs, **r.brief()), tags)
        return Verdict.held(obs, nontrivial=False, tags=tags)
    # absent: must have been written, only that file
    others = [k for k in diff if k != rel]
    if others:
        return Verdict.violated("init touched paths other than its target: %s" % others, dict(obs, **r.brief()), tags)
    if r.exit != 0 or not os.path.isfile(target):
        return Verdict.violated("target absent but init failed (exit %s, file present: %s)" % (r.exit, os.path.isfile(target)),
                                dict(obs, **r.brief()), tags)
    doc, err = y2j(target)
    if doc is None or not isinstance(doc, dict):
        return Verdict.violated("written file is not loadable YAML: %s" % err, dict(obs, content=open(target, errors="replace").read()[:800], kf_key=roundtrip_key(pkg)), tags)
    for k, v in DOCUMENTED_DEFAULTS.items():
        if doc.get(k) != v:
            return Verdict.violated("documented default %s=%r, file states %r" % (k, v, doc.get(k)), obs, tags)
    pk = doc.get("packages")
    if not isinstance(pk, dict) or list(pk.keys()) != [pkg]:
        return Verdict.violated("package key does not load back unchanged: wrote %r, file yields %r" % (pkg, list(pk.keys()) if isinstance(pk, dict) else pk),
                                dict(obs, content=open(target, errors="replace").read()[-600:], kf_key=roundtrip_key(pkg)), tags)
    if (pk[pkg] or {}).get("config", {}).get("all") is not True:
        return Verdict.violated("package entry does not state all: true: %r" % pk[pkg], obs, tags)
    # accepted by mockery itself (strict loader)
    r2 = core.run_mockery(ctx, root, ["showconfig", "--config", target], timeout=120)
    if r2.timed_out:
        return Verdict.inconclusive("watchdog showconfig")
    if r2.exit != 0 or r2.panicked:
        return Verdict.violated("mockery's own loader rejects the file init wrote (exit %s)" % r2.exit, dict(obs, **r2.brief()), tags)
    if "|" not in pkg:
        # showconfig re-marshals through koanf with '|' as path delimiter; keys containing it are out of scope here
        p = subprocess.run([core.helper_bin("y2j")], input=r2.out, capture_output=True, text=True)
        if p.returncode == 0:
            d2 = json.loads(p.stdout)
            k2 = list((d2 or {}).get("packages", {}).keys()) if isinstance(d2, dict) else None
            if k2 != [pkg]:
                return Verdict.violated("package key read back by mockery differs: wrote %r, mockery shows %r" % (pkg, k2), dict(obs, showconfig=r2.out[-600:]), tags)
            obs["showconfig_roundtrip"] = True
    if case["kind"] != "bootstrap":
        return Verdict.held(obs, tags=tags)
    # full bootstrap: plain `mockery` must now mock exactly the interfaces of p1 and the result must compile
    snap1 = core.snapshot(root)
    env = {}
    r3 = core.run_mockery(ctx, root, [] if tg in ("default", "yaml", "dotslash") else ["--config", target], env_extra=env, timeout=300)
    if r3.timed_out:
        return Verdict.inconclusive("watchdog mockery")
    snap2 = core.snapshot(root)
    d3 = core.snap_diff(snap1, snap2)
    if r3.exit != 0:
        return Verdict.violated("plain mockery run after init failed (exit %s)" % r3.exit, dict(obs, **r3.brief()), tags)
    if sorted(d3) != ["p1/mocks_test.go"]:
        return Verdict.violated("after init, mockery wrote %s, expected exactly p1/mocks_test.go" % sorted(d3), dict(obs, **r3.brief()), tags)
    p = subprocess.run([core.helper_bin("gofacts"), os.path.join(root, "p1/mocks_test.go")], capture_output=True, text=True)
    facts = json.loads(p.stdout)[0]
    exp = SRC_IFACES[case["variant"]]
    got = {n for n in facts["type_decls"] if not n.endswith("_Call") and not n.endswith("_Expecter")}
    if got != set(exp.values()) or any(c != 1 for c in facts["type_decls"].values()):
        return Verdict.violated("mock types %s, expected %s" % (sorted(got), sorted(exp.values())), obs, tags)
    v = core.go_compile(root)
    if v.timed_out:
        return Verdict.inconclusive("watchdog vet")
    if v.exit != 0:
        return Verdict.violated("generated mocks do not compile after init+mockery", dict(obs, **v.brief()), tags)
    obs["mocks"] = sorted(got)
    return Verdict.held(obs, tags=tags + ["bootstrap-compiled"])


def body(ctx, replay=None):
    core.build_mockery(ctx)
    ctx.rule = ("cases = {initial state of the target path (absent, empty, arbitrary bytes, valid config, directory, dangling symlink, "
                "read-only file, missing parent)} x {--config target: default, nested relative, absolute, .yaml, ./} ; package strings with every "
                "YAML-significant character class (+ random strings in thorough); full bootstrap (init, mockery, go vet) on scratch packages. "
                "non-trivial = the case reached a verdict about file safety or round-trip; distinct = case hash")
    ctx.assumptions = ["yaml.v3 (y2j) is the reference YAML reader, the same library mockery loads configs with",
                       "package strings starting with '-' are passed after `--`; empty string not generated",
                       "nothing is asserted about creating missing parent directories"]
    cases = [replay] if replay is not None else gen_cases(ctx)
    ctx.run_cases(cases, eval_case)
    return ctx.finish()


if __name__ == "__main__":
    core.main_wrapper("C18", "exploration", body)
