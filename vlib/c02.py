"""C02 — the generated mock type implements exactly the source interface.

Planes P1 + P2: the C01 corpus plus embedding-heavy interfaces and function-local types that
shadow package-level interfaces; after the real mockery run the harness writes, from the case
description only, one assertion file per interface into the destination package
(`var _ I[targs] = (*MockI[targs])(nil)`, for generic interfaces with two admissible
type-argument tuples and/or inside a generic function) and lets the toolchain decide; gofacts
counts type declarations so that a mock declared twice in one file is seen even if it compiled.
"""
import fnmatch
import json
import os
import random
import subprocess

from . import core, gosrc, mockgen, c01
from .core import Verdict

EMBED_POOL = [
    ["Base1"], ["Base2"], ["Base3"], ["Dia1", "Dia2"], ["io.Reader"], ["io.ReadWriteCloser"], ["fmt.Stringer"], ["sort.Interface"],
    ["%s.I" % gosrc.Q["ma"]], ["LGI[int]"], ["%s.GI[LS]" % gosrc.Q["mb"]], ["context.Context"], ["LI"], ["io.Closer", "io.Seeker"],
    ["interface{ Anon(x LS) error }"], ["LCtx"], ["%s.Ctx" % gosrc.Q["odd"]],
]
# method names provided by each pool entry (to avoid conflicting duplicates)
EMBED_METHODS = [
    {"B1"}, {"B1", "B2"}, {"B1", "B2", "B3", "M"}, {"B1", "D1", "D2"}, {"Read"}, {"Read", "Write", "Close"}, {"String"}, {"Len", "Less", "Swap"},
    {"M"}, {"Get", "Put"}, {"Get", "Set"}, {"Deadline", "Done", "Err", "Value"}, {"LM"}, {"Close", "Seek"}, {"Anon"},
    {"Deadline", "Done", "Err", "Value"}, {"Deadline", "Done", "Err", "Value"},
]
COMPATIBLE_DUP = [{"B1"}, {"Deadline", "Done", "Err", "Value"}, {"Close"}, {"Read"}]


def embed_iface(g, k):
    r = g.rng
    chosen, names = [], set()
    for idx in r.sample(range(len(EMBED_POOL)), len(EMBED_POOL)):
        ms = EMBED_METHODS[idx]
        clash = (ms & names)
        if clash and not any(clash <= c for c in COMPATIBLE_DUP):
            continue
        if {"Get"} & ms and {"Get"} & names:
            continue
        chosen += EMBED_POOL[idx]
        names |= ms
        if len(chosen) >= r.randint(2, 5):
            break
    body = list(chosen)
    if r.random() < 0.6:
        body.append(g.method("Own%d" % k))
    return g.iface("embed.mixed", body)


def c01_known(known, template, feature):
    for k in known.findings("C01"):
        parts = (k.sig or "").split(":")
        if len(parts) >= 3 and fnmatch.fnmatchcase(template, parts[1]) and fnmatch.fnmatchcase(feature, parts[2]):
            return True
    return False


def gen_cases(ctx):
    base = [c for c in c01.gen_cases(ctx) if c["kind"] != "replace-type"]
    rng = ctx.rng
    cases = []
    for n, c in enumerate(base):
        c = dict(c)
        c["shadow"] = rng.random() < 0.5
        # every fourth package: all mocks in ONE output file (what one mock is rendered with - type parameters, options - must not stick to the next)
        if c["kind"] == "catalogue" and n % 4 == 1:
            c["onefile"] = True
        cases.append(c)
    n = 10 if ctx.tier == "quick" else 80
    for k in range(n):
        inpkg = rng.random() < 0.5
        t = rng.choice(["testify", "matryer"])
        cases.append({"kind": "embed", "inpkg": inpkg, "genseed": rng.randrange(1 << 30), "count": 8, "template": t, "formatter": rng.choice(["goimports", "gofmt", "noop"]),
                      "placement": rng.choice(["inpkg", "inpkg-test"]) if inpkg else rng.choice(["xtest", "outpkg", "outpkg-collide"]), "td": c01.td_options(rng, t),
                      "gomod": "plain", "srckind": "ordinary", "shadow": True})
    # fixed: generic and non-generic interfaces alternating inside ONE output file, a generic one first
    for inpkg in (True, False):
        g = gosrc.Gen(random.Random(ctx.seed * 31 + inpkg), inpkg_only=inpkg)
        cat = gosrc.catalogue(g)
        gen_idx = [k for k, i in enumerate(cat) if i["feature"] in ("generic.two", "generic.any", "generic.comparable", "generic.three")]
        plain_idx = [k for k, i in enumerate(cat) if i["feature"] in ("method.variadic-2-results", "method.embedded-std", "method.name-String-Error", "method.many")]
        idx = [x for pair in zip(gen_idx, plain_idx) for x in pair]
        for t in ("testify", "matryer"):
            cases.append({"kind": "catalogue", "inpkg": inpkg, "genseed": ctx.seed * 31 + inpkg, "idx": idx, "template": t, "formatter": "gofmt",
                          "placement": "inpkg-test" if inpkg else "outpkg", "td": {}, "gomod": "plain", "srckind": "ordinary", "shadow": False, "onefile": True})
    # replace-type towards an alias of the same type: the mock must stay assignable, and no neighbouring parameter may change
    for k, (t, pl) in enumerate((a, b) for a in ("testify", "matryer") for b in ("outpkg", "inpkg-test", "xtest")):
        cases.append({"kind": "replace-alias", "inpkg": False, "template": t, "formatter": ["gofmt", "noop", "goimports"][k % 3], "placement": pl, "td": {},
                      "gomod": "plain", "srckind": "ordinary", "shadow": False, "level": ["root", "pkg", "iface"][k % 3]})
    return cases


def replace_alias_ifaces():
    qa = gosrc.Q["ma"]
    body = ["Send(f %s.T, flags int) (%s.T, []byte, error)" % (qa, qa), "Both(a %s.T, b string, c %s.E, d []int) (%s.E, map[string]int)" % (qa, qa, qa),
            "Var(x %s.T, rest ...int) %s.T" % (qa, qa), "Ptr(p *%s.T, q %s.T, r [2]int) (%s.T, *%s.T, chan int)" % (qa, qa, qa, qa), "Fn(g %s.T, f func(int) string) (%s.T, func() error)" % (qa, qa)]
    return [{"name": "RepAlias", "tparams": "", "body": body, "feature": "replace-type.alias-of-same-type", "targs": [], "exported": True, "features": []}]


def case_ifaces(case):
    if case["kind"] == "replace-alias":
        return replace_alias_ifaces()
    if case["kind"] == "embed":
        g = gosrc.Gen(random.Random(case["genseed"]), inpkg_only=case["inpkg"])
        return [embed_iface(g, i) for i in range(case["count"])]
    return c01.case_ifaces(case)


def shadow_decls(ifaces):
    """function-local and func-literal-local types named like the package-level interfaces"""
    out = []
    for n, i in enumerate(ifaces):
        if i["tparams"]:
            continue
        nm = i["name"]
        if n % 3 == 0:
            out.append("func shadowFn%d() {\n\ttype %s interface{ ShadowOnly%d() }\n\tvar _ %s\n}\n" % (n, nm, n, nm))
        elif n % 3 == 1:
            out.append("var shadowVar%d = func() int {\n\ttype %s interface{ ShadowOnly%d() }\n\tvar _ %s\n\treturn %d\n}()\n" % (n, nm, n, nm, n))
        else:
            out.append("func shadowNest%d() {\n\t_ = func() {\n\t\ttype %s struct{ X int }\n\t\tvar _ %s\n\t}\n}\n" % (n, nm, nm))
    return "\n".join(out)


def assertion_file(info, iface, placement, inpkg):
    """Go source asserting assignability, written by the harness from the case description."""
    srcq = "" if inpkg else "srcq."
    name = iface["name"]
    mock = ("Mock" if name[0].isupper() else "mock") + name
    lines = ["package %s" % info["outpkg"], ""]
    imports = set()
    body = []
    if not iface["tparams"]:
        body.append("var _ %s%s = (*%s)(nil)" % (srcq, name, mock))
    else:
        for ta in iface["targs"]:
            rendered = []
            for a in ta:
                for k in gosrc.FOREIGN:
                    if "{%s}" % k in a:
                        a = a.replace("{%s}" % k, "aq_" + k)
                        imports.add(k)
                rendered.append(a)
            inst = "[" + ", ".join(rendered) + "]"
            body.append("var _ %s%s%s = (*%s%s)(nil)" % (srcq, name, inst, mock, inst))
        if inpkg:
            # in the source package the type-parameter list can be copied verbatim: holds for *all* admissible type arguments
            tp = iface["tparams"]
            names = [p.strip().split()[0] for p in split_tparams(tp)]
            inst = "[" + ", ".join(names) + "]"
            body.append("func _assertGeneric_%s%s() {\n\tvar _ %s%s = (*%s%s)(nil)\n}" % (sanitize(name), tp, name, inst, mock, inst))
    if not inpkg:
        lines.append('import srcq "%s"' % info["srcpath"])
    for k in sorted(imports):
        lines.append('import aq_%s "%s/ext/%s"' % (k, gosrc.MOD, gosrc.FOREIGN[k][0]))
    # the qualifiers of the type-parameter list copied in-package are the source file's: import them under the same names
    if inpkg and iface["tparams"]:
        for k in gosrc.used_imports(iface["tparams"]):
            if k in gosrc.FOREIGN:
                lines.append('import %s "%s/ext/%s"' % (gosrc.Q[k], gosrc.MOD, gosrc.FOREIGN[k][0]))
            else:
                lines.append('import %s "%s"' % (gosrc.Q[k], gosrc.STD[k]))
    return "\n".join(lines) + "\n\n" + "\n\n".join(body) + "\n"


def sanitize(s):
    return "".join(ch if ch.isascii() and (ch.isalnum() or ch == "_") else "_" for ch in s)


def split_tparams(tp):
    inner = tp.strip()[1:-1]
    parts, depth, cur = [], 0, ""
    for ch in inner:
        if ch in "[({":
            depth += 1
        elif ch in "])}":
            depth -= 1
        if ch == "," and depth == 0:
            parts.append(cur)
            cur = ""
        else:
            cur += ch
    parts.append(cur)
    # `a, b T` style groups are not generated
    return parts


def eval_case(ctx, case):
    known = ctx.known
    ifaces = [i for i in case_ifaces(case) if not c01_known(known, case["template"], i["feature"])]
    if case.get("only"):
        ifaces = [i for i in ifaces if i["name"] in case["only"]]
    if not ifaces:
        return [(case, Verdict.skipped("all interfaces of this chunk are C01 known findings"))]
    extra = {}
    extra_cfg = None
    if case["kind"] == "replace-alias":
        ma = gosrc.MOD + "/ext/" + gosrc.FOREIGN["ma"][0]
        rt = {"replace-type": {ma: {"T": {"pkg-path": ma, "type-name": "A"}}}}
        if case["level"] == "root":
            extra_cfg = rt
        elif case["level"] == "pkg":
            case = dict(case, td_pkg_cfg=rt)
        else:
            case = dict(case, iface_cfg=rt)
    root, info = mockgen.build_module(ctx, case, ifaces, extra_cfg=extra_cfg)
    if case.get("shadow"):
        sdir = info["srcdir"]
        with open(os.path.join(root, sdir, "shadow.go"), "w") as f:
            f.write("package %s\n\n%s" % (info["srcpkg"], shadow_decls(ifaces)))
    pre = mockgen.precheck(root)
    if pre.exit != 0:
        return [(case, Verdict.inconclusive("generated package rejected by the toolchain: " + (pre.err + pre.out)[-600:]))]
    ok, failures, r = mockgen.run_generation(ctx, root, info, case, ifaces)
    tags = ["template=" + case["template"], "placement=" + case["placement"], "shadow=%s" % bool(case.get("shadow"))] + (["one-file"] if case.get("onefile") else [])
    by_name = {i["name"]: i for i in ifaces}
    verdicts = []
    for name, ri in failures.items():
        i = by_name[name]
        if ri.panicked:
            verdicts.append((dict(case, only=[name], feature=i["feature"]), Verdict.violated("mockery crashed on interface %s" % name, ri.brief(), tags)))
        else:
            verdicts.append((dict(case, only=[name], feature=i["feature"]), Verdict.inconclusive("mockery failed for %s (C01's business): %s" % (name, ri.err[-300:]))))
    inpkg = case["placement"] in mockgen.IN_PACKAGE
    # first make sure the mocks compile at all (otherwise it is C01's finding, not C02's)
    dup0 = {}
    for name in sorted(ok):
        p0 = subprocess.run([core.helper_bin("gofacts"), os.path.join(root, mockgen.out_file(info, by_name[name], case["placement"]))], capture_output=True, text=True)
        try:
            facts0 = json.loads(p0.stdout)[0]
        except Exception:
            continue
        d0 = {k: v for k, v in (facts0.get("type_decls") or {}).items() if v > 1}
        if d0:
            dup0[name] = d0
    comp0 = mockgen.compile_all(root, info)
    broken = set()
    per0 = {}
    if comp0.exit != 0:
        per0, _ = mockgen.attribute_compile_errors(comp0, info, [by_name[n] for n in ok], case["placement"])
        broken = set(per0)
        if not broken:
            return verdicts + [(case, Verdict.inconclusive("destination package does not compile for an unattributed reason: " + (comp0.err + comp0.out)[-500:]))]
        # drop the broken mocks so that the rest can be judged
        for n in broken:
            p = os.path.join(root, mockgen.out_file(info, by_name[n], case["placement"]))
            if os.path.exists(p):
                os.unlink(p)
    test_suffix = "_test.go" if case["placement"] in ("inpkg-test", "xtest") else ".go"
    afile = {}
    dup = {}
    for name in sorted(ok - broken):
        i = by_name[name]
        fn = "zz_assert_%s%s" % (sanitize(name), test_suffix)
        atext = assertion_file(info, i, case["placement"], inpkg)
        if "var _ " in atext:  # (a generic interface without a known admissible type-argument tuple cannot be asserted out of package)
            afile[fn] = name
            with open(os.path.join(root, info["outdir"], fn), "w") as f:
                f.write(atext)
        p = subprocess.run([core.helper_bin("gofacts"), os.path.join(root, mockgen.out_file(info, i, case["placement"]))], capture_output=True, text=True)
        facts = json.loads(p.stdout)[0]
        d = {k: v for k, v in (facts.get("type_decls") or {}).items() if v > 1}
        funcs = facts.get("funcs") or []
        dfun = sorted(set(f for f in funcs if funcs.count(f) > 1))
        if d or dfun:
            dup[name] = {"types": d, "funcs": dfun}
    comp = mockgen.compile_all(root, info)
    if comp.timed_out:
        return verdicts + [(case, Verdict.inconclusive("watchdog compile"))]
    per = {}
    if comp.exit != 0:
        text = comp.out + "\n" + comp.err
        for m in mockgen.ERR_RE.finditer(text):
            fn = os.path.basename(m.group(1))
            if fn in afile:
                per.setdefault(afile[fn], []).append(m.group(4))
        if not per:
            # errors elsewhere (e.g. duplicate declarations inside a mock file)
            pm, other = mockgen.attribute_compile_errors(comp, info, [by_name[n] for n in ok - broken], case["placement"])
            for n, msgs in pm.items():
                per.setdefault(n, []).extend(msgs)
            if not per:
                return verdicts + [(case, Verdict.inconclusive("assertion files do not compile for an unattributed reason: " + text[-600:]))]
    for name in sorted(ok):
        i = by_name[name]
        sub = dict(case, only=[name], feature=i["feature"])
        t2 = tags + ["feature=" + i["feature"]] + (["generic"] if i["tparams"] else [])
        if name in broken:
            p0 = os.path.join(root, mockgen.out_file(info, i, case["placement"]))
            verdicts.append((sub, Verdict.violated("mock of %s (feature %s, %s, %s) does not type-check, so it cannot be assigned to the source interface: %s" % (
                name, i["feature"], case["template"], case["placement"], per0.get(name, [])[:2]),
                {"errors": per0.get(name, [])[:5], "iface": gosrc.render_iface(i), "duplicates": dup0.get(name)}, t2)))
        elif name in dup:
            verdicts.append((sub, Verdict.violated("interface %s is mocked more than once in its output file: %s" % (name, dup[name]),
                                                   {"iface": gosrc.render_iface(i), "duplicates": dup[name]}, t2)))
        elif name in per:
            verdicts.append((sub, Verdict.violated("mock of %s (feature %s, %s, %s) is not assignable to the source interface: %s" % (
                name, i["feature"], case["template"], case["placement"], per[name][:2]),
                {"errors": per[name][:5], "iface": gosrc.render_iface(i), "assertion": assertion_file(info, i, case["placement"], inpkg)}, t2)))
        else:
            na = assertion_file(info, i, case["placement"], inpkg).count("var _ ")
            verdicts.append((sub, Verdict.held({"iface": name, "feature": i["feature"], "assertions": na}, nontrivial=na > 0, tags=t2)))
    return verdicts


def body(ctx, replay=None):
    core.build_mockery(ctx)
    ctx.known = core.KnownFindings.load()
    ctx.rule = ("each evaluation = one interface: the C01 corpus (minus C01's known findings) plus random embedding-heavy interfaces (2-5 embeds from local/foreign/stdlib/"
                "instantiated-generic/alias/anonymous interfaces, depth <= 3, diamonds), half of the packages with function-local and func-literal-local types named "
                "like the package-level interfaces; harness-written assertion files (`var _ I[targs] = (*MockI[targs])(nil)`, two type-argument tuples, and a generic "
                "function over the verbatim type-parameter list in-package) compiled by the toolchain + duplicate-declaration count by go/ast. "
                "non-trivial = the interface reached the assertion; distinct = (case, interface)")
    ctx.assumptions = ["assignability to the interface, decided by the Go type checker, is the definition of 'implements exactly'",
                       "out-of-package generic interfaces are asserted for the listed type-argument tuples only"]
    cases = [replay] if replay is not None else gen_cases(ctx)

    def evaluator(c, case):
        res = eval_case(c, case)
        for sub, v in res[:-1]:
            c.record(sub, v, {"feature": sub.get("feature"), "template": sub.get("template"), "placement": sub.get("placement")})
        sub, v = res[-1]
        sub = dict(sub)
        case.clear()
        case.update(sub)
        return v

    ctx.run_cases(cases, evaluator, stop_after_violations=300,
                  view=lambda c: {"feature": c.get("feature"), "template": c.get("template"), "placement": c.get("placement")})
    return ctx.finish()


if __name__ == "__main__":
    core.main_wrapper("C02", "exploration", body)
