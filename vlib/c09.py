"""C09 — invalid or unsatisfiable input fails loudly: non-zero exit, never a crash.

Plane P1, fault enumeration: each invalid-input class is injected alone and inside an otherwise
valid three-package configuration, at every configuration level where the key is legal; each
valid-but-unusual class must run clean. The monitor looks at the exit status, at stderr through
two predicates only (any output at all; a Go panic trace) and cross-checks the file set against
the configured mocks whenever the exit status is 0.
"""
import copy
import itertools
import json
import os
import re

from . import core, probe
from .core import Verdict

MOD = "example.com/m"

GOOD_SRC = {
    "p1/a.go": "package p1\n\ntype Alpha interface{ A(x int) (string, error) }\n\ntype Beta interface{ B(xs ...string) }\n\ntype NotIface struct{ F int }\n",
    "p2/b.go": "package p2\n\nimport \"io\"\n\ntype Gamma interface {\n\tio.Reader\n\tG() map[string][]int\n}\n",
    "p3/c.go": "package p3\n\ntype Delta[T any] interface{ D(v T) T }\n",
}
EXPECT_ALL = {"p1": ["MockAlpha", "MockBeta"], "p2": ["MockGamma"], "p3": ["MockDelta"]}


def base_cfg(n=3):
    pk = {MOD + "/p1": {"interfaces": {"Alpha": {"config": {}, "configs": [{}, {"structname": "MockAlpha2"}]}, "Beta": {"config": {}}}}}
    if n == 3:
        pk[MOD + "/p2"] = {"config": {"all": True}}
        pk[MOD + "/p3"] = {"config": {"all": True}}
    return {"packages": pk}


def lvl(cfg, level):
    p1 = cfg["packages"][MOD + "/p1"]
    if level == "root":
        return cfg
    if level == "pkg":
        return p1.setdefault("config", {})
    if level == "iface":
        return p1["interfaces"]["Alpha"]["config"]
    if level == "cfg":
        return p1["interfaces"]["Alpha"]["configs"][1]
    raise ValueError(level)


ALL_LEVELS = ["root", "pkg", "iface", "cfg"]

# ---------------------------------------------------------------- invalid classes
# each: name -> (levels, injector(files, cfg, level) )


def set_at(key, value):
    def inj(files, cfg, level):
        lvl(cfg, level)[key] = value
    return inj


def td_at(td):
    def inj(files, cfg, level):
        lvl(cfg, level).setdefault("template-data", {}).update(td)
    return inj


def inj_missing_iface(files, cfg, level):
    cfg["packages"][MOD + "/p1"]["interfaces"]["DoesNotExist"] = {}


def inj_missing_iface_exists_elsewhere(files, cfg, level):
    # `Gamma` is declared in p2 (configured, all: true) but listed under p1, where it does not exist
    cfg["packages"][MOD + "/p1"]["interfaces"]["Gamma"] = {}
    cfg["packages"].setdefault(MOD + "/p2", {"config": {"all": True}})


def inj_missing_iface_listed_elsewhere(files, cfg, level):
    # `Alpha` exists in p1 and is listed there; it is also listed under p3, where it does not exist
    cfg["packages"].setdefault(MOD + "/p3", {"config": {"all": True}})
    cfg["packages"][MOD + "/p3"].setdefault("interfaces", {})["Alpha"] = {}


def td_lookalike(files, cfg, level):
    """a wrongly typed value that prints exactly like the conforming value validated just before it"""
    cfg.setdefault("template-data", {})["unroll-variadic"] = True
    if level == "cfg":
        p1 = cfg["packages"][MOD + "/p1"]
        p1["interfaces"]["Alpha"]["configs"][0].setdefault("template-data", {})["unroll-variadic"] = True
        p1["interfaces"]["Alpha"]["configs"][1].setdefault("template-data", {})["unroll-variadic"] = "true"
    else:
        lvl(cfg, level).setdefault("template-data", {})["unroll-variadic"] = "true"


def inj_struct_listed(files, cfg, level):
    cfg["packages"][MOD + "/p1"]["interfaces"]["NotIface"] = {}


def inj_pkg_missing_all(files, cfg, level):
    cfg["packages"][MOD + "/nope"] = {"config": {"all": True}}


def inj_pkg_missing_prefix(files, cfg, level):
    # does not exist; its path is a proper *string* prefix of the configured sibling .../p1 (not a path prefix: nothing is rooted there)
    cfg["packages"][MOD + "/p"] = {"config": {"all": True}}


def inj_pkg_unloadable_prefix(files, cfg, level):
    # exists but every file is excluded by build constraints; .../p1 extends its name without a separator
    files["p/x.go"] = "//go:build neverset\n\npackage p\n\ntype Hidden interface{ H() }\n"
    cfg["packages"][MOD + "/p"] = {"config": {"include-interface-regex": ".*"}}


def inj_pkg_missing_listed(files, cfg, level):
    cfg["packages"][MOD + "/nope"] = {"interfaces": {"X": {}}}


def inj_pkg_missing_plain(files, cfg, level):
    cfg["packages"]["example.com/other/module/pkg"] = None


def inj_type_error(files, cfg, level):
    files["p1/bad.go"] = "package p1\n\nfunc broken() int { return \"not an int\" }\n"


def inj_syntax_error(files, cfg, level):
    files["p1/bad.go"] = "package p1\n\nfunc broken( {\n"


def inj_unresolved_import(files, cfg, level):
    files["p1/bad.go"] = "package p1\n\nimport \"example.com/m/doesnotexist\"\n\nvar _ = doesnotexist.X\n"


def inj_unreadable_template(files, cfg, level):
    lvl(cfg, level)["template"] = "file://no/such/template.templ"


def inj_template_is_dir(files, cfg, level):
    files["tdir/keep"] = ""
    lvl(cfg, level)["template"] = "file://tdir"


def inj_template_parse_error(files, cfg, level):
    files["bad.templ"] = "package {{.PkgName}}\n{{ if }}\n"
    d = lvl(cfg, level)
    d["template"] = "file://bad.templ"
    d["require-template-schema-exists"] = False


def inj_template_exec_error(files, cfg, level):
    files["bad.templ"] = "package {{.PkgName}}\n{{ .NoSuchField }}\n"
    d = lvl(cfg, level)
    d["template"] = "file://bad.templ"
    d["require-template-schema-exists"] = False


def inj_template_bad_go(files, cfg, level):
    files["bad.templ"] = "package {{.PkgName}}\n\nfunc ( {\n"
    d = lvl(cfg, level)
    d["template"] = "file://bad.templ"
    d["require-template-schema-exists"] = False


def inj_missing_schema(files, cfg, level):
    files["ok.templ"] = "package {{.PkgName}}\n"
    lvl(cfg, level)["template"] = "file://ok.templ"


def inj_required_key_no_data(files, cfg, level):
    """a custom template whose schema requires a key, and no template-data anywhere: the (empty) data does not satisfy the schema"""
    files["req.templ"] = "package {{.PkgName}}\n"
    files["req.templ.schema.json"] = json.dumps({"type": "object", "required": ["must-be-set"], "properties": {"must-be-set": {"type": "string"}}})
    lvl(cfg, level)["template"] = "file://req.templ"
    lvl(cfg, level)["formatter"] = "noop"


def inj_required_key_empty_data(files, cfg, level):
    inj_required_key_no_data(files, cfg, level)
    lvl(cfg, level)["template-data"] = {}


def subpkg_regex_list(lst):
    def inj(files, cfg, level):
        lvl(cfg, level).update({"recursive": True, "exclude-subpkg-regex": list(lst)})
    return inj


def unknown_key_at(where):
    def inj(files, cfg, level):
        p1 = cfg["packages"][MOD + "/p1"]
        if where == "package-object":
            p1["bogus-key"] = 1
        elif where == "interface-object":
            p1["interfaces"]["Alpha"]["bogus-key"] = 1
        else:
            lvl(cfg, level)["no-such-parameter"] = "x"
    return inj


def conflict(kind):
    def inj(files, cfg, level):
        cfg["dir"] = "shared"
        cfg["filename"] = "all_mocks.go"
        cfg["pkgname"] = "shared"
        if kind == "srcpkg":
            pass  # p1, p2, p3 all forced into one file
        elif kind == "pkgname":
            for k in (MOD + "/p2", MOD + "/p3"):
                cfg["packages"].pop(k, None)
            cfg["packages"][MOD + "/p1"]["interfaces"]["Beta"]["config"]["pkgname"] = "otherpkg"
        elif kind == "template":
            for k in (MOD + "/p2", MOD + "/p3"):
                cfg["packages"].pop(k, None)
            cfg["packages"][MOD + "/p1"]["interfaces"]["Beta"]["config"]["template"] = "matryer"
    return inj


def conflict_spelling(kind):
    """the same output file designated through two spellings of its directory (relative, absolute via {{.ConfigDir}}, with ./ and x/..)"""
    def inj(files, cfg, level):
        cfg["filename"] = "all_mocks.go"
        cfg["pkgname"] = "shared"
        cfg["force-file-write"] = True   # with overwriting enabled nothing but the conflict check stands between the two mocks and one lost file
        spell = {"rel-abs": ("shared", "{{.ConfigDir}}/shared"), "dot": ("shared", "./shared/"), "updown": ("shared", "shared/x/.."),
                 # one directory reached directly and through a symbolic link (the link exists; below it a directory that does not exist yet)
                 "symlink": ("shared", "via/link"), "symlink-deeper": ("shared/gen/x", "via/link/gen/x")}[kind]
        if kind.startswith("symlink"):
            files["shared/.keep"] = ""
            files["via/link"] = ("symlink", "../shared")
        cfg["dir"] = spell[0]
        for k in (MOD + "/p3",):
            cfg["packages"].setdefault(k, {"config": {"all": True}})
        cfg["packages"].setdefault(MOD + "/p2", {"config": {"all": True}})
        cfg["packages"][MOD + "/p2"].setdefault("config", {})["dir"] = spell[1]
        cfg["packages"].pop(MOD + "/p3", None)
    return inj


def inj_no_packages(files, cfg, level):
    cfg.pop("packages")


def inj_empty_packages(files, cfg, level):
    cfg["packages"] = {}


def inj_bad_yaml(files, cfg, level):
    files[".mockery.yml"] = "packages:\n  example.com/m/p1: [unclosed\n"


def inj_wrong_type(files, cfg, level):
    lvl(cfg, level)["all"] = ["not", "a", "bool"]


def inj_wrong_type_packages(files, cfg, level):
    cfg["packages"] = "a string"


def inj_self_ref(files, cfg, level):
    lvl(cfg, level)["structname"] = "X{{.StructName}}"


def inj_self_ref_alternating(files, cfg, level):
    # a cycle that does not grow: the value renders to its own reference and back (period 2, constant size); under the noop formatter nothing else can reject it
    lvl(cfg, level)["structname"] = '{{"{{.StructName}}"}}'
    lvl(cfg, level)["formatter"] = "noop"


def inj_self_ref_squaring(files, cfg, level):
    # two self-references inside a literal: still a cycle; a substitution into the already substituted text would square the size in every round
    lvl(cfg, level)["structname"] = '{{"{{.StructName}}{{.StructName}}"}}'


def inj_template_conn_refused(files, cfg, level):
    # an http template whose connection cannot be established (nothing listens on port 1): a transport error, not an HTTP status
    lvl(cfg, level)["template"] = "http://127.0.0.1:1/t.templ"
    lvl(cfg, level)["require-template-schema-exists"] = False


_SERVER = None   # loopback HTTP helper, started by body()


def inj_template_status(code):
    """an http template whose host answers with a 2xx status other than 200 that does not carry the template: 206 with the first half of it (the half is
    literal text that parses and formats), 204 without a body (under the noop formatter an empty rendering is not rejected downstream either)"""
    def inj(files, cfg, level):
        _SERVER.put("st/t.templ", "package {{.PkgName}}\n\n" + "".join("// literal line %03d of a template that is mostly text\n" % k for k in range(80)) +
                    "{{range .Interfaces}}type {{.StructName}} struct{}\n{{end}}")
        lvl(cfg, level)["template"] = "http://127.0.0.1:%d/status/%d/st/t.templ" % (_SERVER.http, code)
        lvl(cfg, level)["require-template-schema-exists"] = False
        lvl(cfg, level)["formatter"] = "noop"
    return inj


def inj_self_ref_file(files, cfg, level):
    lvl(cfg, level)["structname"] = "Y{{.StructName}}"
    lvl(cfg, level)["filename"] = "{{.StructName}}.go"


def inj_self_ref_noop(files, cfg, level):
    # under the noop formatter nothing downstream can reject the file: only the detection of the cycle itself makes the run fail
    lvl(cfg, level)["structname"] = "{{.StructName}}Z"
    lvl(cfg, level)["formatter"] = "noop"


def inj_self_ref_pkgname_noop(files, cfg, level):
    lvl(cfg, level)["pkgname"] = "p{{.PkgName}}" if False else "q{{.SrcPackageName}}{{.StructName}}"
    lvl(cfg, level)["structname"] = "S{{.StructName}}"
    lvl(cfg, level)["formatter"] = "noop"


def inj_tmpl_syntax(files, cfg, level):
    lvl(cfg, level)["dir"] = "out/{{ .InterfaceName "


def inj_tmpl_exec(files, cfg, level):
    lvl(cfg, level)["filename"] = "{{ .NoSuchVariable }}.go"


def inj_tmpl_divzero(files, cfg, level):
    lvl(cfg, level)["filename"] = "f{{ div 1 0 }}.go"


def inj_tmpl_unknown_func(files, cfg, level):
    lvl(cfg, level)["pkgname"] = "{{ nosuchfunc .SrcPackageName }}"


def inj_cyclic_overridden(files, cfg, level):
    """a cyclic value at `level`, overridden at every more specific place that produces a mock"""
    p1 = cfg["packages"][MOD + "/p1"]
    lvl(cfg, level)["structname"] = "Z{{.StructName}}"
    if level == "root":
        for name, p in cfg["packages"].items():
            p.setdefault("config", {})["structname"] = "Mock{{.InterfaceName}}"
    elif level == "pkg":
        p1["interfaces"]["Alpha"]["config"]["structname"] = "MockA{{.InterfaceName}}"
        p1["interfaces"]["Beta"]["config"]["structname"] = "MockB{{.InterfaceName}}"
    else:
        p1["interfaces"]["Alpha"]["configs"][0]["structname"] = "MockAlpha1"
        p1["interfaces"]["Alpha"]["configs"][1]["structname"] = "MockAlpha2"


INVALID = {
    "listed-interface-absent": (["pkg"], inj_missing_iface),
    "listed-interface-is-struct": (["pkg"], inj_struct_listed),
    "listed-interface-absent-but-declared-in-another-package": (["pkg"], inj_missing_iface_exists_elsewhere),
    "listed-interface-absent-but-listed-in-another-package": (["pkg"], inj_missing_iface_listed_elsewhere),
    "template-data-lookalike-wrong-type": (["pkg", "iface", "cfg"], td_lookalike),
    "package-missing-all": (["root"], inj_pkg_missing_all),
    "package-missing-listed": (["root"], inj_pkg_missing_listed),
    "package-missing-name-prefix-of-sibling": (["root"], inj_pkg_missing_prefix),
    "package-unloadable-name-prefix-of-sibling": (["root"], inj_pkg_unloadable_prefix),
    "package-missing-foreign-module": (["root"], inj_pkg_missing_plain),
    "package-type-error": (["pkg"], inj_type_error),
    "package-syntax-error": (["pkg"], inj_syntax_error),
    "package-unresolved-import": (["pkg"], inj_unresolved_import),
    "unknown-template": (ALL_LEVELS, set_at("template", "no-such-style")),
    "unknown-template-empty": (ALL_LEVELS, set_at("template", "")),
    "unreadable-file-template": (ALL_LEVELS, inj_unreadable_template),
    "template-is-directory": (["root", "iface"], inj_template_is_dir),
    "template-parse-error": (["root", "cfg"], inj_template_parse_error),
    "template-exec-error": (["root", "cfg"], inj_template_exec_error),
    "template-output-unparseable": (["root", "iface"], inj_template_bad_go),
    "custom-template-without-schema": (["root", "pkg"], inj_missing_schema),
    "unknown-formatter": (ALL_LEVELS, set_at("formatter", "prettier")),
    "unknown-key": (ALL_LEVELS, unknown_key_at("config")),
    "unknown-key-package-object": (["pkg"], unknown_key_at("package-object")),
    "unknown-key-interface-object": (["iface"], unknown_key_at("interface-object")),
    "unknown-template-data-key": (ALL_LEVELS, td_at({"no-such-option": True})),
    "template-data-wrong-type": (ALL_LEVELS, td_at({"unroll-variadic": "yes please"})),
    "boilerplate-file-unreadable": (ALL_LEVELS, lambda f, c, l: (td_at({"boilerplate-file": "no/such/header.txt"})(f, c, l), lvl(c, l).update({"formatter": "noop"}))),
    "invalid-include-regex": (["root", "pkg"], set_at("include-interface-regex", "([unclosed")),
    "invalid-exclude-regex": (["root", "pkg"], lambda f, c, l: lvl(c, l).update({"include-interface-regex": ".*", "exclude-interface-regex": "(?P<bad"})),
    "invalid-exclude-subpkg-regex": (["root", "pkg"], lambda f, c, l: lvl(c, l).update({"recursive": True, "exclude-subpkg-regex": ["ok", "*bad"]})),
    # every list entry is an expression of its own: entries that are invalid alone but would be balanced when joined or wrapped are invalid
    "invalid-exclude-subpkg-regex-balanced-when-joined": (["root", "pkg"], subpkg_regex_list(["gen)|(mocks"])),
    "invalid-exclude-subpkg-regex-split-group": (["root", "pkg"], subpkg_regex_list(["parent/(gen", "mocks)"])),
    "invalid-exclude-subpkg-regex-last-entry": (["root", "pkg"], subpkg_regex_list(["zzz", "fine", "[a-"])),
    "schema-required-key-no-template-data": (["root", "pkg"], inj_required_key_no_data),
    "schema-required-key-empty-template-data": (["root", "pkg", "iface"], inj_required_key_empty_data),
    "cyclic-templated-value": (ALL_LEVELS, inj_self_ref),
    "cyclic-templated-value-via-filename": (ALL_LEVELS, inj_self_ref_file),
    "cyclic-templated-value-alternating-noop-formatter": (["root", "iface"], inj_self_ref_alternating),
    "cyclic-templated-value-two-references-in-literal": (["root", "cfg"], inj_self_ref_squaring),
    "http-template-connection-refused": (["root", "iface"], inj_template_conn_refused),
    "http-template-answered-206-partial-content": (["root", "iface"], inj_template_status(206)),
    "http-template-answered-204-no-content": (["root", "iface"], inj_template_status(204)),
    "cyclic-templated-value-noop-formatter": (ALL_LEVELS, inj_self_ref_noop),
    "cyclic-templated-value-two-keys-noop-formatter": (["root", "iface"], inj_self_ref_pkgname_noop),
    "templated-value-syntax-error": (ALL_LEVELS, inj_tmpl_syntax),
    "templated-value-exec-error": (ALL_LEVELS, inj_tmpl_exec),
    "templated-value-div-zero": (["root", "cfg"], inj_tmpl_divzero),
    "templated-value-unknown-func": (["root", "iface"], inj_tmpl_unknown_func),
    "one-file-two-source-packages": (["root"], conflict("srcpkg")),
    "one-file-two-source-packages-relative-vs-absolute-dir": (["root"], conflict_spelling("rel-abs")),
    "one-file-two-source-packages-dot-slash-dir": (["root"], conflict_spelling("dot")),
    "one-file-two-source-packages-updown-dir": (["root"], conflict_spelling("updown")),
    "one-file-two-source-packages-through-symlinked-dir": (["root"], conflict_spelling("symlink")),
    "one-file-two-source-packages-below-symlinked-dir": (["root"], conflict_spelling("symlink-deeper")),
    "one-file-two-pkgnames": (["root"], conflict("pkgname")),
    "one-file-two-templates": (["root"], conflict("template")),
    "no-packages-key": (["root"], inj_no_packages),
    "empty-packages": (["root"], inj_empty_packages),
    "config-not-yaml": (["root"], inj_bad_yaml),
    "wrong-value-type": (["root", "pkg", "iface"], inj_wrong_type),
    "packages-wrong-type": (["root"], inj_wrong_type_packages),
}
NOPAIR = {"http-template-answered-206-partial-content", "http-template-answered-204-no-content", "cyclic-templated-value-alternating-noop-formatter", "boilerplate-file-unreadable", "cyclic-templated-value-noop-formatter", "cyclic-templated-value-two-keys-noop-formatter",
          "schema-required-key-no-template-data", "schema-required-key-empty-template-data"}
# the include/exclude regexes only matter when the package is not `all` and has unlisted interfaces
REGEX_CLASSES = {"invalid-include-regex", "invalid-exclude-regex"}

# ---------------------------------------------------------------- valid-but-unusual classes

GOMODS = {
    "tab": "module\texample.com/m\n\ngo 1.23\n\nrequire github.com/stretchr/testify v1.10.0\n",
    "quoted": "module \"example.com/m\"\n\ngo 1.23\n\nrequire github.com/stretchr/testify v1.10.0\n",
    "trailing-comment": "module example.com/m // the module\n\ngo 1.23\n\nrequire github.com/stretchr/testify v1.10.0\n",
    "leading-comment": "// Module file\n// module fake/path\n\nmodule example.com/m\n\ngo 1.23\n\nrequire github.com/stretchr/testify v1.10.0\n",
    "crlf": "module example.com/m\r\n\r\ngo 1.23\r\n\r\nrequire github.com/stretchr/testify v1.10.0\r\n",
    "go-first": "go 1.23\n\nmodule example.com/m\n\nrequire github.com/stretchr/testify v1.10.0\n",
    "spaces": "module   example.com/m   \n\ngo 1.23\n\nrequire github.com/stretchr/testify v1.10.0\n",
    "block": "module (\n\texample.com/m\n)\n\ngo 1.23\n\nrequire github.com/stretchr/testify v1.10.0\n",
}
GOMOD_TAIL = ("\nrequire (\n\tgithub.com/davecgh/go-spew v1.1.2-0.20180830191138-d8f796af33cc // indirect\n\tgithub.com/pmezard/go-difflib v1.0.1-0.20181226105442-5d4384ee4fb2 // indirect\n"
              "\tgithub.com/stretchr/objx v0.5.2 // indirect\n\tgopkg.in/yaml.v3 v3.0.1 // indirect\n)\n")

LOCAL_TYPES = """package p1

type Alpha interface{ A(x int) (string, error) }

type Beta interface{ B(xs ...string) }

type NotIface struct{ F int }

func f1() {
	type LocalIface interface{ L() }
	type Alpha interface{ Shadow() }
	type LocalGen[T any] interface{ G(T) }
	type LocalInst LocalGen[int]
	var _ LocalIface
	var _ Alpha
	var _ LocalInst
}

var fn = func() {
	type InLiteral interface{ Q() }
	var _ InLiteral
	go func() {
		type Deeper interface{ R() }
		var _ Deeper
	}()
}

func (NotIface) method() {
	type InMethod interface{ S() }
	var _ InMethod
}
"""


OUT_GOMODS = {"empty": "", "only-go-line": "go 1.23\n", "only-comments": "// nothing here\n// module not/really\n", "module-keyword-alone": "module\n",
              "garbage": "this is not a go.mod {{{ \n", "binary": "\x00\x01\x02module\xff\n", "module-then-eof": "module", "two-module-lines": "module a/b\nmodule c/d\n",
              "quoted-empty": "module \"\"\n", "tab-only": "module\t\n"}


def random_gomod(rng):
    """a syntactically valid go.mod for module example.com/m assembled from the forms the grammar allows"""
    nl = "\n"
    c = rng.choice
    cm = lambda: c(["", "", " // note", "\t// module example.com/other", " //"])
    lead = c(["", "// header\n", "// module not/this/one\n\n", "\n\n", "/* not a comment form in go.mod */\n"][:4])
    mod = c(["module example.com/m", "module\texample.com/m", "module \"example.com/m\"", "module (\n\texample.com/m\n)",
             "module (\n\t\"example.com/m\"" + cm() + "\n)", "module   example.com/m  "]) + cm()
    go = c(["go 1.23", "go 1.23.0", "go\t1.23", "go 1.22"]) + cm()
    req1 = c(["require github.com/stretchr/testify v1.10.0", "require (\n\tgithub.com/stretchr/testify v1.10.0\n)", "require \"github.com/stretchr/testify\" v1.10.0",
              "require (\n\tgithub.com/stretchr/testify v1.10.0 // direct\n\n)"])
    extras = []
    for e in rng.sample(["exclude example.com/gone v1.0.0", "exclude (\n\texample.com/gone v1.0.0\n\texample.com/gone v1.1.0\n)", "retract v0.0.1 // published by accident",
                         "retract [v0.1.0, v0.2.0]", "retract (\n\tv0.3.0\n\t[v0.4.0, v0.5.0] // range\n)", "replace example.com/unused => ./unused",
                         "replace example.com/unused v1.0.0 => example.com/unused2 v1.2.3", "godebug default=go1.21", "// module trailing/comment"], rng.randint(0, 3)):
        extras.append(e)
    parts = [mod, go] if rng.random() < 0.8 else [go, mod]
    body = [req1] + extras
    rng.shuffle(body)
    text = lead + (nl + nl).join(parts + body) + nl
    tail = GOMOD_TAIL
    if rng.random() < 0.15:
        text, tail = text.replace(nl, "\r\n"), tail.replace(nl, "\r\n")
    return text + tail


def unusual_cases():
    cases = [{"kind": "unusual", "what": "outmod-" + k, "outmod": k} for k in OUT_GOMODS]
    for name in GOMODS:
        cases.append({"kind": "unusual", "what": "gomod-" + name, "gomod": name, "placement": "inpkg"})
        cases.append({"kind": "unusual", "what": "gomod-" + name + "-outpkg", "gomod": name, "placement": "outpkg"})
    for w in ("local-types", "build-tagged", "test-only-dir", "empty-dir-recursive", "anchors", "anchors-nested-map", "long-names", "main-package",
              "unicode-idents", "dot-import", "cgo-free-tags", "nested-module-output", "testfile-iface", "blank-and-init", "configs-null-entry"):
        cases.append({"kind": "unusual", "what": w})
    # boolean settings given through the environment in every spelling of true/false (valid: the run must succeed) and in spellings that are no
    # boolean at all (crash-freedom only: a diagnostic and a non-zero exit are fine, an unrecovered panic is not)
    for var in ("MOCKERY_FORCE_FILE_WRITE", "MOCKERY_REQUIRE_TEMPLATE_SCHEMA_EXISTS"):
        for sp in ("true", "TRUE", "True", "tRuE", "trUE", "false", "FALSE", "False", "fAlSe", "FALSe"):
            cases.append({"kind": "unusual", "what": "env-bool-spelling", "env": {var: sp}})
        for sp in ("t", "T", "1", "0", "yes", "on", "", " true", "true ", "TRUE\n", "ｔｒｕｅ", "İ"):
            cases.append({"kind": "unusual", "what": "env-bool-not-a-boolean", "env": {var: sp}, "crash_only": True})
    return cases


def build_unusual(case):
    files = copy.deepcopy(GOOD_SRC)
    cfg = base_cfg(3)
    expect = copy.deepcopy(EXPECT_ALL)
    expect["p1"] = ["MockAlpha", "MockAlpha2", "MockBeta"]
    gomod = None
    yaml_text = None
    w = case["what"]
    if w == "gomod-random":
        gomod = case["gomod_text"]
        if case["placement"] == "outpkg":
            cfg["dir"] = "mocks/{{.SrcPackageName}}"
            cfg["pkgname"] = "mocks"
            cfg["filename"] = "mocks.go"
    elif w.startswith("gomod-"):
        gomod = GOMODS[case["gomod"]] + GOMOD_TAIL.replace("\n", "\r\n" if case["gomod"] == "crlf" else "\n")
        if case["placement"] == "outpkg":
            cfg["dir"] = "mocks/{{.SrcPackageName}}"
            cfg["pkgname"] = "mocks"
            cfg["filename"] = "mocks.go"
    elif w == "local-types":
        files["p1/a.go"] = LOCAL_TYPES
        cfg["packages"][MOD + "/p1"] = {"config": {"all": True}}
        expect["p1"] = ["MockAlpha", "MockBeta"]
    elif w == "build-tagged":
        files["p1/tagged.go"] = "//go:build sometag\n\npackage p1\n\ntype Tagged interface{ T() }\n"
        files["p1/other_os.go"] = "//go:build plan9\n\npackage p1\n\ntype Plan9Only interface{ P() }\n"
        cfg["packages"][MOD + "/p1"] = {"config": {"all": True}}
        expect["p1"] = ["MockAlpha", "MockBeta"]
    elif w == "test-only-dir":
        files["p4/only_test.go"] = "package p4\n\ntype InTest interface{ T() }\n"
        cfg["packages"][MOD + "/p4"] = {"config": {"all": True}}
    elif w == "empty-dir-recursive":
        files["tree/sub/x.go"] = "package sub\n\ntype Sub interface{ S() }\n"
        files["tree/empty/.keep"] = ""
        files["tree/onlytest/a_test.go"] = "package onlytest\n"
        cfg["packages"][MOD + "/tree"] = {"config": {"all": True, "recursive": True}}
        expect["tree/sub"] = ["MockSub"]
    elif w == "anchors":
        yaml_text = ("_anchors:\n  common: &common\n    all: true\n  name: &name \"Mock{{.InterfaceName}}\"\nstructname: *name\npackages:\n"
                     "  example.com/m/p1:\n    config:\n      <<: *common\n  example.com/m/p2:\n    config: *common\n  example.com/m/p3:\n    config:\n      all: true\n")
        expect["p1"] = ["MockAlpha", "MockBeta"]
    elif w == "anchors-nested-map":
        yaml_text = ("_anchors:\n  td: &td\n    unroll-variadic: true\n  deep:\n    more: {a: 1, b: [x, y]}\nall: true\ntemplate-data: *td\npackages:\n"
                     "  example.com/m/p1:\n  example.com/m/p2:\n  example.com/m/p3:\n")
        expect["p1"] = ["MockAlpha", "MockBeta"]
    elif w == "long-names":
        long = "VeryLong" + "Name" * 60
        files["p1/long.go"] = "package p1\n\ntype %s interface{ %s(%s int) }\n" % (long, "Method" + "X" * 200, "param" + "y" * 200)
        cfg["packages"][MOD + "/p1"] = {"config": {"all": True}}
        expect["p1"] = ["MockAlpha", "MockBeta", "Mock" + long]
    elif w == "main-package":
        files["cmdp/main.go"] = "package main\n\ntype Runner interface{ Run() error }\n\nfunc main() {}\n"
        cfg["packages"][MOD + "/cmdp"] = {"config": {"all": True}}
        expect["cmdp"] = ["MockRunner"]
    elif w == "unicode-idents":
        files["p1/u.go"] = "package p1\n\ntype Größe interface{ Maß(länge int) (ergebnis string) }\n"
        cfg["packages"][MOD + "/p1"] = {"config": {"all": True}}
        expect["p1"] = ["MockAlpha", "MockBeta", "MockGröße"]
    elif w == "dot-import":
        files["p1/dot.go"] = "package p1\n\nimport . \"io\"\n\ntype Dotted interface{ Get() Reader }\n"
        cfg["packages"][MOD + "/p1"] = {"config": {"all": True}}
        expect["p1"] = ["MockAlpha", "MockBeta", "MockDotted"]
    elif w == "cgo-free-tags":
        files["p1/nocgo.go"] = "//go:build !cgo\n\npackage p1\n\ntype NoCgo interface{ N() }\n"
        files["p1/withcgo.go"] = "//go:build cgo\n\npackage p1\n\ntype WithCgo interface{ W() }\n"
        cfg["packages"][MOD + "/p1"] = {"config": {"all": True}}
        expect["p1"] = None  # which of the two files is active depends on the toolchain's cgo setting
    elif w == "nested-module-output":
        files["nested/go.mod"] = "module example.com/nested\n\ngo 1.23\n"
        cfg["dir"] = "nested/mocks/{{.SrcPackageName}}"
        cfg["pkgname"] = "mocks"
        cfg["filename"] = "mocks.go"
        expect = {"nested/mocks/p1": expect["p1"], "nested/mocks/p2": expect["p2"], "nested/mocks/p3": expect["p3"]}
    elif w.startswith("outmod-"):
        files["nested/go.mod"] = OUT_GOMODS[case["outmod"]]
        cfg["dir"] = "nested/mocks/{{.SrcPackageName}}"
        cfg["pkgname"] = "mocks"
        cfg["filename"] = "mocks.go"
        expect = None
    elif w == "testfile-iface":
        files["p1/x_test.go"] = "package p1\n\ntype OnlyInTest interface{ T() }\n"
        cfg["packages"][MOD + "/p1"] = {"config": {"all": True}}
        expect["p1"] = ["MockAlpha", "MockBeta"]
    elif w == "configs-null-entry":
        # witness of a repaired defect: an empty list item inherits everything
        cfg["packages"][MOD + "/p1"]["interfaces"]["Alpha"]["configs"][0] = None
    elif w == "blank-and-init":
        files["p1/misc.go"] = "package p1\n\nfunc init() {}\n\nvar _ = 1\n\ntype _ interface{ X() }\n\ntype Blank interface{ M(_ int, _ string) (_ error) }\n"
        cfg["packages"][MOD + "/p1"] = {"config": {"all": True}}
        expect["p1"] = ["MockAlpha", "MockBeta", "MockBlank"]
    return files, cfg, expect, gomod, yaml_text


STRUCT_RE = re.compile(r"^type (\S+?)(?:\[.*\])? struct\b", re.M)


def generated_structs(root):
    out = {}
    for dp, dns, fns in os.walk(root):
        for fn in fns:
            if not fn.endswith(".go"):
                continue
            p = os.path.join(dp, fn)
            text = open(p, errors="replace").read()
            if "Code generated by mockery" not in text[:200]:
                continue
            names = [s for s in STRUCT_RE.findall(text) if not s.endswith("_Expecter") and not s.endswith("_Call")]
            out.setdefault(os.path.relpath(dp, root), []).extend(names)
    return {k: sorted(v) for k, v in out.items()}


def eval_invalid(ctx, case):
    cls, level, alone = case["class"], case["level"], case["alone"]
    files = copy.deepcopy(GOOD_SRC)
    cfg = base_cfg(1 if alone else 3)
    if cls in REGEX_CLASSES:
        cfg["packages"][MOD + "/p1"].pop("interfaces")
    if cls.startswith("one-file") and alone:
        cfg = base_cfg(3)
    injs = [(cls, level)] + [tuple(x) for x in case.get("extra", [])]
    for c2, l2 in injs:
        INVALID[c2][1](files, cfg, l2)
    if ".mockery.yml" not in files:
        files[".mockery.yml"] = json.dumps(cfg)
    root = core.scratch_module(ctx, files)
    r = core.run_mockery(ctx, root, [], timeout=300, cpu_limit=120)
    tags = ["class=" + cls, "level=" + level, "alone" if alone else "in-valid-3-package-config"]
    obs = {"exit": r.exit, "class": cls, "level": level}
    if r.timed_out or r.cpu_killed:
        return Verdict.violated("invalid input (%s) made mockery hang" % cls, dict(obs, **r.brief()), tags) if r.cpu_killed else Verdict.inconclusive("watchdog")
    if r.panicked:
        return Verdict.violated("invalid input (%s at %s) ends in an unrecovered panic" % (cls, level), dict(obs, config=cfg, **r.brief()), tags)
    if r.exit == 0:
        kf = "cyclic-overridden:%s" % level if cls == "cyclic-value-overridden-below" and not case.get("extra") else None
        return Verdict.violated("invalid input (%s at %s, %s) but mockery exited 0" % (cls, level, "alone" if alone else "inside a valid configuration"),
                                dict(obs, config=cfg, generated=generated_structs(root), kf_key=kf, **r.brief()), tags)
    if not r.has_diag:
        return Verdict.violated("non-zero exit without any diagnostic (%s)" % cls, dict(obs, **r.brief()), tags)
    return Verdict.held(obs, tags=tags)


WRITE_FAULTS = ["outdir-immutable", "outdir-component-is-file", "outfile-name-too-long", "existing-output-immutable", "outdir-is-dangling-symlink"]


def eval_writefault(ctx, case):
    """A valid three-package configuration in which the file of ONE package cannot be written (the checks run as root, so the obstacles are ones that
    stop root as well: an immutable directory or file, a path component that is a regular file, a file name beyond NAME_MAX, a dangling link).
    'mockery exits with status zero only if every configured mock was generated and written': the run must end non-zero, without a panic."""
    import subprocess
    what, victim = case["fault"], case["victim"]
    files = copy.deepcopy(GOOD_SRC)
    cfg = base_cfg(3)
    cfg.update({"dir": "mocks/{{.SrcPackageName}}", "pkgname": "mocks", "filename": "mocks.go", "force-file-write": True})
    vic = cfg["packages"][MOD + "/" + victim].setdefault("config", {})
    if what == "outfile-name-too-long":
        vic["filename"] = "m" + "x" * 260 + ".go"
    if what == "outdir-component-is-file":
        files["mocks/%s" % victim] = "a regular file where the output directory of this package should be\n"
    root = core.scratch_module(ctx, dict(files, **{".mockery.yml": json.dumps(cfg)}))
    vdir = os.path.join(root, "mocks", victim)
    locked = []
    try:
        if what == "outdir-immutable":
            os.makedirs(vdir)
            locked.append(vdir)
        elif what == "existing-output-immutable":
            os.makedirs(vdir)
            f = os.path.join(vdir, "mocks.go")
            open(f, "w").write("// Code generated by mockery; DO NOT EDIT.\n\npackage mocks\n")
            locked.append(f)
        elif what == "outdir-is-dangling-symlink":
            os.makedirs(os.path.dirname(vdir), exist_ok=True)
            os.symlink("/nonexistent-%d/deeper" % os.getpid(), vdir)
        for l in locked:
            if subprocess.run(["chattr", "+i", l], capture_output=True).returncode != 0:
                return Verdict.inconclusive("chattr +i is not available on this file system")
        r = core.run_mockery(ctx, root, [], timeout=300, cpu_limit=120)
    finally:
        for l in locked:
            subprocess.run(["chattr", "-i", l], capture_output=True)
    tags = ["write-fault=" + what, "victim=" + victim]
    written = sorted(d for d in ("p1", "p2", "p3") if os.path.isfile(os.path.join(root, "mocks", d, cfg["packages"][MOD + "/" + d].get("config", {}).get("filename", "mocks.go"))))
    obs = {"exit": r.exit, "fault": what, "victim": victim, "written": written}
    if r.timed_out:
        return Verdict.inconclusive("watchdog")
    if r.cpu_killed:
        return Verdict.violated("a file that cannot be written (%s) made mockery hang" % what, dict(obs, **r.brief()), tags)
    if r.panicked:
        return Verdict.violated("a file that cannot be written (%s for package %s) ends in an unrecovered panic" % (what, victim), dict(obs, **r.brief()), tags)
    if r.exit == 0:
        return Verdict.violated("the mocks of package %s cannot be written (%s) but mockery exited 0" % (victim, what), dict(obs, **r.brief()), tags)
    if not r.has_diag:
        return Verdict.violated("non-zero exit without any diagnostic (%s)" % what, dict(obs, **r.brief()), tags)
    return Verdict.held(obs, tags=tags)


def eval_unusual(ctx, case):
    files, cfg, expect, gomod, yaml_text = build_unusual(case)
    files[".mockery.yml"] = yaml_text if yaml_text is not None else json.dumps(cfg)
    root = core.scratch_module(ctx, files, gomod=gomod)
    tags = ["unusual=" + case["what"]]
    pre = core.go_cmd(["list", "./..."], root)
    if pre.exit != 0 and not case.get("outmod"):
        return Verdict.inconclusive("toolchain rejects the generated input before mockery runs: " + pre.err[-400:])
    r = core.run_mockery(ctx, root, [], env_extra=case.get("env"), timeout=300, cpu_limit=120)
    obs = {"exit": r.exit, "what": case["what"]}
    if case.get("env"):
        obs["env"] = case["env"]
    if r.timed_out:
        return Verdict.inconclusive("watchdog")
    if r.panicked:
        return Verdict.violated("valid-but-unusual input (%s%s) ends in an unrecovered panic" % (case["what"], " %r" % case["env"] if case.get("env") else ""), dict(obs, **r.brief()), tags)
    if case.get("crash_only"):
        return Verdict.held(obs, nontrivial=True, tags=tags + ["crash-freedom-only"])
    if case.get("outmod"):
        # the go.mod governing the *output* directory is malformed or has no module line: crash-freedom only
        return Verdict.held(obs, nontrivial=True, tags=tags + ["crash-freedom-only"])
    if r.exit != 0:
        return Verdict.violated("valid-but-unusual input (%s): mockery exited %s" % (case["what"], r.exit), dict(obs, **r.brief()), tags)
    got = generated_structs(root)
    obs["generated"] = got
    if expect is not None:
        for d, names in expect.items():
            if names is None:
                continue
            dd = os.path.normpath(d)
            if case.get("placement") == "outpkg":
                dd = os.path.join("mocks", d)
            have = got.get(dd, [])
            if sorted(have) != sorted(names):
                return Verdict.violated("exit 0 but the mocks written for %s are %s, configured %s" % (d, have, sorted(names)), obs, tags)
        extra = [d for d in got if os.path.normpath(d) not in {os.path.normpath(os.path.join("mocks", k) if case.get("placement") == "outpkg" else k) for k in expect}]
        if extra:
            return Verdict.violated("mocks written for directories that are not configured: %s" % extra, obs, tags)
    if case["what"] != "nested-module-output":
        v = core.go_compile(root)
        if v.timed_out:
            return Verdict.inconclusive("watchdog vet")
        if v.exit != 0:
            return Verdict.violated("valid-but-unusual input (%s): generated mocks do not compile" % case["what"], dict(obs, kf_key="c09-compile:" + case["what"], **v.brief()), tags)
    return Verdict.held(obs, tags=tags)


# ---------------------------------------------------------------- shape fuzzing of the configuration (crash freedom + exit-0 consistency)
FUZZ_KEYS = ["all", "recursive", "dir", "filename", "pkgname", "structname", "template", "template-schema", "formatter", "force-file-write", "log-level",
             "include-interface-regex", "exclude-interface-regex", "exclude-subpkg-regex", "replace-type", "template-data", "boilerplate-file", "build-tags",
             "require-template-schema-exists", "inpackage", "packages", "interfaces", "config", "configs", "_anchors", "include-auto-generated"]
FUZZ_VALUES = [None, True, False, 0, -1, 1.5, 1e308, "", " ", "~", "null", "{{", "{{.Nope}}", "{{ .InterfaceName", "a/../..", "/", "\x00", "é" * 40, "x" * 5000,
               [], [None], [[]], [{}], ["a", 1], {}, {"": None}, {"a": {"b": {"c": []}}}, {"1": 1}, [1, [2, [3, [4]]]], {"config": None}, {"interfaces": []},
               "testify", "matryer", "file://", "file:///nonexistent", "http://", "https://[::1", "goimports", "gofmt", "noop"]


def fuzz_paths(node, path=()):
    """all (container path, key) pairs of a JSON tree"""
    out = []
    if isinstance(node, dict):
        for k, v in node.items():
            out.append((path, k))
            out += fuzz_paths(v, path + (k,))
    elif isinstance(node, list):
        for k, v in enumerate(node):
            out.append((path, k))
            out += fuzz_paths(v, path + (k,))
    return out


def fuzz_get(node, path):
    for k in path:
        node = node[k]
    return node


def build_fuzz(case):
    import random
    rng = random.Random(case["seed"])
    cfg = base_cfg(3)
    cfg.update({"all": False, "template": "testify", "template-data": {"unroll-variadic": True}})
    cfg["packages"][MOD + "/p2"]["config"].update({"dir": "mocks/{{.SrcPackageName}}", "pkgname": "mocks", "replace-type": {"io": {"Reader": {"pkg-path": "io", "type-name": "Writer"}}}})
    muts = []
    for _ in range(rng.randint(1, 3)):
        paths = fuzz_paths(cfg)
        cpath, key = rng.choice(paths)
        cont = fuzz_get(cfg, cpath)
        r = rng.random()
        if r < 0.55:
            v = copy.deepcopy(rng.choice(FUZZ_VALUES))
            cont[key] = v
            muts.append(["set", list(cpath) + [key], v])
        elif r < 0.8 and isinstance(cont, dict):
            nk = rng.choice(FUZZ_KEYS)
            v = copy.deepcopy(rng.choice(FUZZ_VALUES))
            cont[nk] = v
            muts.append(["add", list(cpath) + [nk], v])
        elif r < 0.9 and isinstance(cont, dict):
            # move a subtree to a level where it does not belong
            nk = rng.choice(FUZZ_KEYS)
            cont[nk] = copy.deepcopy(cont[key])
            muts.append(["copy", list(cpath) + [key], nk])
        else:
            if isinstance(cont, dict):
                cont.pop(key)
            else:
                del cont[key]
            muts.append(["del", list(cpath) + [key]])
    return cfg, muts


def eval_fuzz(ctx, case):
    cfg, muts = build_fuzz(case)
    files = copy.deepcopy(GOOD_SRC)
    try:
        files[".mockery.yml"] = json.dumps(cfg)
    except (TypeError, ValueError):
        return Verdict.skipped("not serialisable")
    files[".mockery.yml"] = files[".mockery.yml"].replace("Infinity", ".inf").replace("NaN", ".nan")
    root = core.scratch_module(ctx, files)
    r = core.run_mockery(ctx, root, [], timeout=300, cpu_limit=120)
    tags = ["fuzz"] + sorted({"mut=" + m[0] for m in muts})
    obs = {"exit": r.exit, "mutations": muts}
    if r.cpu_killed:
        return Verdict.violated("mis-shaped configuration made mockery spin for 120 CPU-seconds", dict(obs, **r.brief()), tags)
    if r.timed_out:
        return Verdict.inconclusive("watchdog")
    if r.panicked:
        return Verdict.violated("mis-shaped configuration ends in an unrecovered panic", dict(obs, config=cfg, **r.brief()), tags)
    if r.exit != 0 and not r.has_diag:
        return Verdict.violated("non-zero exit without any diagnostic", dict(obs, config=cfg, **r.brief()), tags)
    return Verdict.held(obs, tags=tags + ["exit=%s" % ("0" if r.exit == 0 else "nonzero")])


def eval_case(ctx, case):
    if case["kind"] == "fuzz":
        return eval_fuzz(ctx, case)
    if case["kind"] == "writefault":
        return eval_writefault(ctx, case)
    return eval_unusual(ctx, case) if case["kind"] == "unusual" else eval_invalid(ctx, case)


def body(ctx, replay=None):
    global _SERVER
    from .c12 import Server
    core.build_mockery(ctx)
    _SERVER = Server(ctx)
    try:
        return _body(ctx, replay)
    finally:
        _SERVER.close()


def _body(ctx, replay=None):
    ctx.level = "fault_enumeration"
    ctx.rule = ("invalid cases: %d input classes x every level where the key is legal x {alone, inside a valid 3-package configuration} "
                "(thorough adds random pairs of faults); unusual cases: 8 go.mod spellings x in-package/out-of-package placement, function-local types "
                "in every position, build-tagged files, test-only and empty directories under recursion, anchors with aliases/merge keys/nested maps, "
                "very long names, main package, unicode identifiers, dot imports, nested output module; fuzz cases: a valid 3-package configuration with 1-3 random "
                "shape mutations (wrongly typed / hostile values set, known keys added at levels where they do not belong, subtrees copied or deleted), monitored for "
                "panics, CPU-bound termination and silent failures only. non-trivial = every case; distinct = case hash" % len(INVALID))
    ctx.assumptions = ["stderr/stdout are inspected only for emptiness and for a Go panic trace", "malformed go.mod files governing the output directory: crash-freedom only"]
    if replay is not None:
        cases = [replay]
    else:
        cases = []
        for cls, (levels, _) in INVALID.items():
            for l in levels:
                for alone in (True, False):
                    cases.append({"kind": "invalid", "class": cls, "level": l, "alone": alone})
        cases += unusual_cases()
        # one of the three packages' files cannot be written: first, middle and last package of the run in turn
        cases += [{"kind": "writefault", "fault": f, "victim": v} for f in WRITE_FAULTS for v in ("p1", "p2", "p3")]
        if ctx.tier == "thorough":
            # classes that also change an auxiliary setting (formatter: noop, another template) can neutralise a second fault whose
            # detection relies on the default of that setting: they are injected alone / inside the valid configuration only
            names = sorted(n for n in INVALID if n not in NOPAIR)
            for i in range(300):
                a, b = ctx.rng.sample(names, 2)
                if "config-not-yaml" in (a, b):
                    continue
                la, lb = ctx.rng.choice(INVALID[a][0]), ctx.rng.choice(INVALID[b][0])
                try:  # some pairs cannot be combined (one removes or overwrites what the other edits): skip them at generation time
                    both = []
                    for first, second in (((a, la), (b, lb)), ((b, lb), (a, la))):
                        f0, c0 = copy.deepcopy(GOOD_SRC), base_cfg(3)
                        if a in REGEX_CLASSES:
                            c0["packages"][MOD + "/p1"].pop("interfaces")
                        INVALID[first[0]][1](f0, c0, first[1])
                        INVALID[second[0]][1](f0, c0, second[1])
                        both.append(json.dumps([f0, c0], sort_keys=True))
                    # each fault alone must also differ from the pair, otherwise one fault swallowed the other
                    singles = []
                    for one in ((a, la), (b, lb)):
                        f0, c0 = copy.deepcopy(GOOD_SRC), base_cfg(3)
                        if a in REGEX_CLASSES:
                            c0["packages"][MOD + "/p1"].pop("interfaces")
                        INVALID[one[0]][1](f0, c0, one[1])
                        singles.append(json.dumps([f0, c0], sort_keys=True))
                    if both[0] != both[1] or both[0] in singles:
                        continue
                except Exception:
                    continue
                cases.append({"kind": "invalid", "class": a, "level": la, "alone": False, "extra": [[b, lb]]})
        import random as _random
        for j in range(40 if ctx.tier == "quick" else 600):
            cases.append({"kind": "unusual", "what": "gomod-random", "gomod_text": random_gomod(_random.Random(ctx.seed * 100003 + j)), "placement": ["inpkg", "outpkg"][j % 2]})
        nf = 150 if ctx.tier == "quick" else 3000
        cases += [{"kind": "fuzz", "seed": ctx.rng.randrange(1 << 30)} for _ in range(nf)]
    ctx.run_cases(cases, eval_case)
    return ctx.finish()


if __name__ == "__main__":
    core.main_wrapper("C09", "fault_enumeration", body)
