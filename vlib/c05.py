"""C05 — generated mocks are safe under concurrent use.

Plane P3 with the race detector and porcupine: freshly generated mocks are linked (`-race`)
with a stress driver. matryer: conservation runs (G in {2,4,8,16} goroutines, every call
carries a unique id, concurrent Calls() readers; multiset(recorded) = multiset(issued), no torn
record) and thousands of short histories of calls / Calls() reads / resets with call and
return timestamps taken at the client boundary, checked by porcupine v1.3.0 against a
sequential list model; snapshots handed out by Calls() are re-read later. testify: concurrent
calls and concurrent EXPECT() registrations, afterwards every issued call is in mock.Calls
exactly once. Race reports are read from the race log and attributed by their innermost frames.
"""
import glob
import json
import os
import random
import re

from . import core, gosrc, mockgen, c01, drvrun
from .core import Verdict

CHUNK = 10


def gen_cases(ctx):
    rng = ctx.rng
    cases = []
    ci = 0
    for inpkg in (True, False):
        g = gosrc.Gen(random.Random(ctx.seed * 31 + inpkg), inpkg_only=inpkg)
        cat = gosrc.catalogue(g)
        # concurrency does not depend on identifier classes: shapes, method forms and generics are enough
        order = [k for k, i in enumerate(cat) if not i["feature"].startswith("ident.")]
        random.Random(ctx.seed * 7 + inpkg).shuffle(order)
        chunks = [order[k:k + CHUNK] for k in range(0, len(order), CHUNK)]
        if ctx.tier == "quick":
            chunks = chunks[:4] if inpkg else chunks[:3]
        for ch in chunks:
            for t in ("matryer", "testify"):
                reps = 1 if ctx.tier == "quick" else 2
                for rep in range(reps):
                    td = {}
                    if t == "matryer":
                        m = ci // 2   # matryer cases have even ci
                        if m % 2 == 0:
                            td["with-resets"] = True
                        if m % 3 != 0:
                            td["stub-impl"] = True
                    else:
                        u = [None, True, False][ci % 3]
                        if u is not None:
                            td["unroll-variadic"] = u
                    cases.append({"kind": "catalogue", "inpkg": inpkg, "genseed": ctx.seed * 31 + inpkg, "idx": ch, "template": t, "formatter": "goimports",
                                  "placement": "inpkg-test" if inpkg else "outpkg", "td": td, "gomod": "plain", "srckind": "ordinary",
                                  "drvseed": rng.randrange(1, 1 << 20), "gomaxprocs": [2, 8, 16][ci % 3], "golang": [None, None, "1.21", None, "1.18"][ci % 5]})
                    ci += 1
    # fixed focus cases: every variadic method form under every option that changes how the variadic arguments are carried
    for inpkg in (True, False):
        g = gosrc.Gen(random.Random(ctx.seed * 31 + inpkg), inpkg_only=inpkg)
        cat = gosrc.catalogue(g)
        vidx = [k for k, i in enumerate(cat) if i["feature"].startswith("method.variadic") or i["feature"].endswith(".variadic") and i["feature"].startswith("shape.basic")][:CHUNK]
        if not vidx:
            continue
        for t, tds in (("testify", [{"unroll-variadic": True}, {"unroll-variadic": False}, {}]), ("matryer", [{"stub-impl": True, "with-resets": True}, {}])):
            for n, td in enumerate(tds):
                # the `go` directive of the module the mocks are linked in decides language semantics (per-iteration loop variables since 1.22, built-ins since 1.21)
                cases.append({"kind": "catalogue", "inpkg": inpkg, "genseed": ctx.seed * 31 + inpkg, "idx": vidx, "template": t, "formatter": "goimports",
                              "placement": "inpkg-test" if inpkg else "outpkg", "td": td, "gomod": "plain", "srckind": "ordinary",
                              "drvseed": rng.randrange(1, 1 << 20), "gomaxprocs": 8, "all_methods": True, "golang": ["1.21", "1.20", None][(n + inpkg) % 3]})
    return cases


BLOCK_SEP = "=================="
FRAME_RE = re.compile(r"^\s+(\S+\.go):(\d+)", re.M)


def parse_race_logs(root):
    """returns (blocks attributed to generated code, other blocks, dedup keys)"""
    gen, other = [], []
    for p in glob.glob(os.path.join(root, "race.log*")):
        text = open(p, errors="replace").read()
        for block in text.split(BLOCK_SEP):
            if "WARNING: DATA RACE" not in block:
                continue
            # the two access stacks: sections starting with "Write at"/"Read at"/"Previous write at"/"Previous read at"
            secs = re.split(r"\n(?=(?:Previous )?(?:[Ww]rite|[Rr]ead|atomic [a-z]+) (?:at|by) )", block)
            tops = []
            for s in secs:
                if re.match(r"\s*(?:WARNING: DATA RACE\n)?(?:Previous )?(?:[Ww]rite|[Rr]ead|atomic)", s.strip()) or "at 0x" in s.split("\n", 1)[0]:
                    m = FRAME_RE.search(s)
                    if m:
                        tops.append(os.path.basename(m.group(1)))
            tops = tops[:2]
            if any(t.startswith("mock_") for t in tops):
                gen.append({"top_frames": tops, "block": block.strip()[:1800]})
            else:
                other.append({"top_frames": tops, "block": block.strip()[:600]})
    return gen, other


def eval_case(ctx, case):
    ifaces = c01.case_ifaces(case)
    root, info, usable, note = drvrun.prepare(ctx, case, ifaces, ctx.known)
    if root is None and isinstance(note, dict) and note.get("crash"):
        return Verdict.violated(note["crash"], note, ["tool-crash-during-generation"])
    if root is None:
        return Verdict.skipped(note) if usable == [] else Verdict.inconclusive(note)
    if not usable:
        return Verdict.skipped("no usable mock in this chunk")
    inpkg = case["placement"] in mockgen.IN_PACKAGE
    reg, skipped = drvrun.registration(info, usable, case, inpkg)
    drvrun.install_driver(root, info, ["core", "matryer", "conc"], reg)
    hist = 25 if ctx.tier == "quick" else 120
    env = {"DRV_SEED": str(case["drvseed"]), "DRV_HISTORIES": str(hist), "DRV_METHODS": "12" if case.get("all_methods") else "3", "GOMAXPROCS": str(case["gomaxprocs"]),
           "GORACE": "halt_on_error=0 log_path=%s" % os.path.join(root, "race.log")}
    r, findings, summary, races = drvrun.run_tests(root, info, "^TestDrvConcurrent$", env, race=True, timeout=2400)
    td = case.get("td") or {}
    tags = ["template=" + case["template"], "placement=" + case["placement"], "gomaxprocs=%d" % case["gomaxprocs"]] + ["td." + k for k in td] + (["go-directive=" + case["golang"]] if case.get("golang") else [])
    if r.timed_out:
        return Verdict.inconclusive("watchdog")
    gen_races, other_races = parse_race_logs(root)
    ctx.count("race_reports_in_generated_code", len(gen_races))
    ctx.count("race_reports_elsewhere", len(other_races))
    if summary is None:
        if gen_races:
            return Verdict.violated("DATA RACE with an access in generated code (%s)" % gen_races[0]["top_frames"], {"race": gen_races[0], "template-data": td}, tags)
        cr = drvrun.crash_in_generated(r)
        if cr:
            return Verdict.violated("the test binary linked with the generated mocks died under concurrent use (%s) with a generated file on the stack (%s)" % (
                cr["crash"], cr["generated_frame"]), dict(cr, **{"template-data": td}), tags)
        return Verdict.inconclusive("driver did not run to completion (exit %s): %s" % (r.exit, (r.out + r.err)[-1200:]))
    cnt = summary["counters"]
    for k, v in cnt.items():
        ctx.count(k, v)
    if cnt.get("conc.porcupine.unknown"):
        ctx.count("porcupine_timeouts_inconclusive", cnt["conc.porcupine.unknown"])
    if gen_races:
        return Verdict.violated("%d DATA RACE report(s) whose innermost frame lies in generated code (%s)" % (len(gen_races), gen_races[0]["top_frames"]),
                                {"race": gen_races[0], "template-data": td, "other_races": len(other_races)}, tags)
    if findings:
        f = findings[0]
        return Verdict.violated("%s.%s [%s/%s] %s: %s" % (f["mock"], f["method"], f["style"], f["sig"], f.get("features"), f["what"]),
                                {"findings": findings[:6], "template-data": td}, tags)
    obs = {k: cnt.get(k, 0) for k in ("conc.matryer.calls", "conc.matryer.histories", "conc.matryer.history-ops", "conc.porcupine.ok", "conc.porcupine.unknown",
                                      "conc.testify.calls", "conc.distinct-interleaving-signatures")}
    obs["race_reports_elsewhere"] = len(other_races)
    if other_races:
        obs["race_elsewhere_sample"] = other_races[0]
    work = cnt.get("conc.matryer.calls", 0) + cnt.get("conc.testify.calls", 0)
    return Verdict.held(obs, nontrivial=work > 0, tags=tags)


def body(ctx, replay=None):
    core.build_mockery(ctx)
    ctx.known = core.KnownFindings.load()
    ctx.rule = ("each case = a package of up to 10 interfaces (shapes, method forms, generics) mocked with matryer (with-resets / stub-impl on part of the cases) or testify "
                "(unroll-variadic true/false/unset), linked with -race; per mock up to 3 methods: matryer conservation runs with G in {2,4,8} or {4,8,16} goroutines x 40 "
                "calls + 2 concurrent Calls() readers, 25 (quick) / 120 (thorough) porcupine histories of 3-5 clients x 6-10 operations, snapshot re-reads; testify "
                "G x 25 concurrent calls with concurrent EXPECT() registrations; GOMAXPROCS rotates over {2,8,16}. non-trivial = concurrent calls were issued; "
                "distinct = case hash; the evidence reports porcupine verdict counts, distinct interleaving signatures and race-log block counts")
    ctx.assumptions = ["'for all interleavings' is restated as: no violating interleaving among those observed", "a porcupine timeout is inconclusive, never a violation",
                       "a race report is attributed to mockery only if the innermost frame of one of its two accesses lies in a generated file",
                       "methods without an int/string parameter cannot carry a call id: only counts are checked for them"]
    cases = [replay] if replay is not None else gen_cases(ctx)
    ctx.run_cases(cases, eval_case, workers=4)
    return ctx.finish()


if __name__ == "__main__":
    core.main_wrapper("C05", "exploration", body)
