"""Probe templates (file:// templates handed to the real binary) that print the data model
mockery passes to templates, inside a *valid but deliberately unformatted Go file with one
unused import*, so that the three formatters leave three distinguishable results:
noop (bytes unchanged), gofmt (reformatted, unused import kept), goimports (import removed).
All data is carried in `// PROBE|...` comment lines, which no formatter rewrites.
"""
import os
import re


def probe_template(pid, extra=""):
    return ('// PROBE-ID: %s\n'
            '// PROBE|FILE|id=%s|pkgname={{.PkgName}}|srcpkg={{.Registry.SrcPkg.PkgPath}}|srcq={{.SrcPkgQualifier}}|td={{printf "%%v" .TemplateData}}|END\n'
            '\n'
            'package {{.PkgName}}\n'
            '\n'
            'import   (\n'
            '\t"os"\n'
            ')\n'
            '%s'
            '{{range $i, $m := .Interfaces}}\n'
            '// PROBE|IFACE|name={{$m.Name}}|struct={{$m.StructName}}|nmethods={{len $m.Methods}}|td={{printf "%%v" $m.TemplateData}}|END\n'
            '{{range $m.Methods}}\n'
            '// PROBE|METHOD|iface={{$m.Name}}|struct={{$m.StructName}}|name={{.Name}}|sig={{.Signature}}|END\n'
            '{{end}}\n'
            'var   _probe{{$i}}   =   1\n'
            '{{end}}\n') % (pid, pid, extra)


def schema_requiring(key=None, extra_props=None, additional=True):
    """A JSON schema (as dict) for template-data; requires `key` if given."""
    s = {"$schema": "http://json-schema.org/draft-07/schema#", "type": "object", "additionalProperties": additional,
         "properties": dict(extra_props or {})}
    if key:
        s["required"] = [key]
    return s


_FIELD = re.compile(r"^(\w+)=(.*)$")


def _parse_line(line):
    body = line[len("PROBE|"):]
    if not body.endswith("|END"):
        return None
    body = body[:-len("|END")]
    kind, _, rest = body.partition("|")
    rec = {"kind": kind}
    # the last field (td= or sig=) may contain anything; earlier fields contain no '|'
    last_key = "sig=" if kind == "METHOD" else "td="
    idx = rest.find("|" + last_key)
    if rest.startswith(last_key):
        idx = -1
        head, tail = "", rest
    elif idx >= 0:
        head, tail = rest[:idx], rest[idx + 1:]
    else:
        head, tail = rest, ""
    for part in head.split("|"):
        if "=" in part:
            k, _, v = part.partition("=")
            rec[k] = v
    if tail:
        k, _, v = tail.partition("=")
        rec[k] = v
    return rec


def parse_file(path):
    try:
        text = open(path, errors="replace").read()
    except OSError:
        return None
    if "PROBE-ID:" not in text[:200]:
        return None
    out = {"path": path, "id": None, "file": None, "ifaces": [], "package": None, "formatter": None, "raw_head": text[:300]}
    m = re.search(r"PROBE-ID: (\S+)", text)
    out["id"] = m.group(1) if m else None
    cur = None
    for line in text.splitlines():
        s = line.strip()
        if s.startswith("//"):
            s = s[2:].strip()
            if s.startswith("PROBE|"):
                rec = _parse_line(s)
                if rec is None:
                    continue
                if rec["kind"] == "FILE":
                    out["file"] = rec
                elif rec["kind"] == "IFACE":
                    rec["methods"] = []
                    out["ifaces"].append(rec)
                    cur = rec
                elif rec["kind"] == "METHOD" and cur is not None:
                    cur["methods"].append(rec)
        elif s.startswith("package ") and out["package"] is None:
            out["package"] = s[len("package "):].strip()
    if re.search(r"var   _probe\d+   =   1", text):
        out["formatter"] = "noop"
    elif '"os"' in text:
        out["formatter"] = "gofmt"
    else:
        out["formatter"] = "goimports"
    return out


def parse_tree(root, skip_dirs=()):
    res = []
    for dp, dns, fns in os.walk(root):
        dns[:] = [d for d in sorted(dns) if os.path.join(dp, d) not in skip_dirs]
        for fn in sorted(fns):
            if fn.endswith(".templ") or fn.endswith(".json") or fn.endswith(".yml") or fn.endswith(".yaml"):
                continue
            r = parse_file(os.path.join(dp, fn))
            if r is not None:
                r["rel"] = os.path.relpath(r["path"], root)
                res.append(r)
    return res
