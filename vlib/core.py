"""Shared machinery for all checks: build, scratch trees, process runner with syscall
monitor, snapshots, verdict bookkeeping, evidence and replay files, known findings.

Every check is a generator of JSON-serialisable *cases* plus an evaluator
`eval_case(ctx, case) -> Verdict`; replaying a violation re-runs the evaluator on the
stored case against a fresh build of /repo's working tree.
"""
import atexit
import concurrent.futures as cf
import hashlib
import stat as _stat
import json
import os
import random
import re
import resource
import shutil
import signal
import subprocess
import sys
import tempfile
import threading
import time

VERIF = os.path.dirname(os.path.dirname(os.path.abspath(__file__)))
REPO = os.environ.get("VERIF_REPO", "/repo")
NCPU = os.cpu_count() or 4
GUARD_TAG = "verif"

_keep = os.environ.get("VERIF_KEEP") == "1"


# --------------------------------------------------------------------------- environment

def base_env(extra=None):
    """Environment for every child process: offline Go, no MOCKERY_* leakage."""
    env = {}
    for k in ("PATH", "HOME", "GOCACHE", "GOMODCACHE", "GOPATH", "LANG", "TMPDIR", "USER"):
        if k in os.environ:
            env[k] = os.environ[k]
    env.setdefault("HOME", "/root")
    env["GOPROXY"] = "off"
    env["GOTOOLCHAIN"] = "auto"
    if extra:
        env.update(extra)
    return env


def scratch_env(extra=None):
    """Environment for scratch modules (not workspaces): -mod=mod, GOWORK=off."""
    e = base_env({"GOFLAGS": "-mod=mod", "GOWORK": "off"})
    if extra:
        e.update(extra)
    return e


# --------------------------------------------------------------------------- verdicts

HELD, VIOLATED, INCONCLUSIVE, SKIPPED = "held", "violated", "inconclusive", "skipped"


class Verdict:
    def __init__(self, status, why="", obs=None, nontrivial=True, tags=()):
        self.status = status
        self.why = why
        self.obs = obs or {}
        self.nontrivial = nontrivial
        self.tags = list(tags)

    @staticmethod
    def held(obs=None, nontrivial=True, tags=()):
        return Verdict(HELD, "", obs, nontrivial, tags)

    @staticmethod
    def violated(why, obs=None, tags=()):
        return Verdict(VIOLATED, why, obs, True, tags)

    @staticmethod
    def inconclusive(why, obs=None):
        return Verdict(INCONCLUSIVE, why, obs, False)

    @staticmethod
    def skipped(why, obs=None):
        return Verdict(SKIPPED, why, obs, False)


def case_hash(case):
    return hashlib.sha256(json.dumps(case, sort_keys=True, default=str).encode()).hexdigest()[:16]


# --------------------------------------------------------------------------- context

class Ctx:
    def __init__(self, prop, tier, seed, level="exploration"):
        self.prop = prop
        self.tier = tier
        self.seed = seed
        self.level = level
        self.t0 = time.time()
        self.rng = random.Random("%s/%s/%d" % (prop, tier, seed))
        self.root = tempfile.mkdtemp(prefix="vp.%s." % prop)
        atexit.register(self.cleanup)
        self.lock = threading.Lock()
        self.evaluations = 0
        self.distinct = set()
        self.samples = []
        self.violations = []
        self.inconclusive = []
        self.skipped = 0
        self.known_hits = []
        self.counters = {}
        self.tags = {}
        self.extra = {}
        self.assumptions = []
        self.rule = ""
        self.exhaustive = False
        self._dirn = 0
        self.mockery = None
        self.src = None
        self.quiet = False

    def cleanup(self):
        if _keep:
            sys.stderr.write("kept scratch: %s\n" % self.root)
            return
        shutil.rmtree(self.root, ignore_errors=True)

    def newdir(self, prefix="w"):
        with self.lock:
            self._dirn += 1
            n = self._dirn
        d = os.path.join(self.root, "%s%05d" % (prefix, n))
        os.makedirs(d)
        return d

    def count(self, key, n=1):
        with self.lock:
            self.counters[key] = self.counters.get(key, 0) + n

    def tag(self, key, n=1):
        with self.lock:
            self.tags[key] = self.tags.get(key, 0) + n

    def log(self, msg):
        if not self.quiet:
            sys.stderr.write("[%s %6.1fs] %s\n" % (self.prop, time.time() - self.t0, msg))
            sys.stderr.flush()

    # ---- recording
    def record(self, case, verdict, sample_view=None):
        """Account one evaluated case."""
        h = case_hash(case)
        with self.lock:
            self.evaluations += 1
            for t in verdict.tags:
                self.tags[t] = self.tags.get(t, 0) + 1
            if verdict.status == HELD:
                if verdict.nontrivial:
                    self.distinct.add(h)
                if len(self.samples) < 6 and verdict.nontrivial:
                    self.samples.append({"case": sample_view if sample_view is not None else case,
                                         "observed": verdict.obs})
            elif verdict.status == VIOLATED:
                self.distinct.add(h)
                self.violations.append((case, verdict))
            elif verdict.status == INCONCLUSIVE:
                self.inconclusive.append((h, verdict.why))
            else:
                self.skipped += 1

    def run_cases(self, cases, evaluator, workers=None, view=None, stop_after_violations=25):
        """Evaluate cases in parallel; evaluator(ctx, case) -> Verdict."""
        workers = workers or NCPU
        cases = list(cases)

        def one(case):
            try:
                v = evaluator(self, case)
            except Exception as e:  # harness bug: inconclusive, never a violation
                import traceback
                v = Verdict.inconclusive("harness exception: %r\n%s" % (e, traceback.format_exc()))
            return case, v

        with cf.ThreadPoolExecutor(max_workers=workers) as ex:
            futs = [ex.submit(one, c) for c in cases]
            for f in cf.as_completed(futs):
                if f.cancelled():
                    continue
                case, v = f.result()
                self.record(case, v, view(case) if view else None)
                if len(self.violations) >= stop_after_violations:
                    for g in futs:
                        g.cancel()
        return

    # ---- finishing
    def finish(self, known=None):
        """Write evidence + replays, print verdict lines, return exit code."""
        wall = time.time() - self.t0
        known = known or KnownFindings.load()
        rc = 0
        lines = []
        nviol = 0
        for case, v in self.violations:
            kf = known.match(self.prop, case, v)
            if kf is not None:
                if kf.kid not in self.known_hits:
                    lines.append("KNOWN-FINDING: property=%s %s %s" % (self.prop, kf.kid, kf.what))
                self.known_hits.append(kf.kid)
                continue
            nviol += 1
            path = write_replay(self.prop, case, v)
            lines.append("VIOLATION property=%s replay=%s" % (self.prop, path))
            sys.stderr.write("  why: %s\n" % v.why[:2000])
            rc = 1
        conclusive = self.evaluations - len(self.inconclusive) - self.skipped
        if rc == 0 and (conclusive == 0 or len(self.inconclusive) > 0.25 * max(1, self.evaluations)):
            lines.append("INCONCLUSIVE property=%s conclusive=%d inconclusive=%d" %
                         (self.prop, conclusive, len(self.inconclusive)))
            for h, why in self.inconclusive[:5]:
                sys.stderr.write("  inconclusive %s: %s\n" % (h, why[:1500]))
            rc = 2
        cov = {
            "evaluations": self.evaluations,
            "distinct_nontrivial": len(self.distinct),
            "rule": self.rule,
            "samples": self.samples[:6],
            "exhaustive": self.exhaustive,
            "inconclusive": len(self.inconclusive),
            "inconclusive_reasons": sorted(set(w[:1500] for _, w in self.inconclusive))[:5],
            "skipped": self.skipped,
            "known_findings_reported": sorted(set(self.known_hits)),
            "counters": dict(sorted(self.counters.items())),
            "features": dict(sorted(self.tags.items())),
        }
        cov.update(self.extra)
        ev = {
            "property_id": self.prop,
            "tier": self.tier,
            "seed": self.seed,
            "level": self.level,
            "coverage": cov,
            "assumptions": self.assumptions,
            "wall_s": round(wall, 2),
            "violations": nviol,
        }
        evdir = os.environ.get("VERIF_EVIDENCE_DIR") or os.path.join(VERIF, "evidence")   # (override only used by tools/try_mutant.sh)
        os.makedirs(evdir, exist_ok=True)
        tmp = os.path.join(evdir, ".%s.json.tmp" % self.prop)
        with open(tmp, "w") as f:
            json.dump(ev, f, indent=1, default=str)
        os.replace(tmp, os.path.join(evdir, "%s.json" % self.prop))
        for l in lines:
            print(l)
        print("%s %s tier=%s seed=%d evaluations=%d distinct_nontrivial=%d inconclusive=%d violations=%d wall=%.1fs" % (
            self.prop, {0: "HELD", 1: "VIOLATED", 2: "INCONCLUSIVE"}[rc], self.tier, self.seed,
            self.evaluations, len(self.distinct), len(self.inconclusive), nviol, wall))
        sys.stdout.flush()
        return rc


def write_replay(prop, case, verdict):
    h = case_hash(case)
    d = os.path.join(os.environ.get("VERIF_REPLAY_DIR") or os.path.join(VERIF, "replays"), prop, h)
    os.makedirs(d, exist_ok=True)
    with open(os.path.join(d, "case.json"), "w") as f:
        json.dump({"property": prop, "case": case, "why": verdict.why, "observed": verdict.obs},
                  f, indent=1, default=str)
    return d


# --------------------------------------------------------------------------- known findings

class KF:
    def __init__(self, kind, prop, kid, sig, what, raw):
        self.kind, self.prop, self.kid, self.sig, self.what, self.raw = kind, prop, kid, sig, what, raw


class KnownFindings:
    """known_findings.txt:
    finding: property=C03 id=KF-x key=<case key regex> :: what fails
    fixed: property=C09 <commit> what failed
    A finding matches a violation iff property equals and the finding's `key` equals the
    verdict's obs['kf_key'] (an exact identifier of the failing input/call site set by the
    check); nothing is ever added at run time."""

    def __init__(self, items):
        self.items = items

    @staticmethod
    def load(path=None):
        path = path or os.path.join(VERIF, "known_findings.txt")
        items = []
        if os.path.exists(path):
            for line in open(path):
                line = line.strip()
                if not line or line.startswith("#"):
                    continue
                if line.startswith("finding:"):
                    body, _, what = line[len("finding:"):].partition("::")
                    kv = dict(p.split("=", 1) for p in body.split() if "=" in p)
                    items.append(KF("finding", kv.get("property"), kv.get("id"), kv.get("key"), what.strip(), line))
                elif line.startswith("fixed:"):
                    items.append(KF("fixed", None, None, None, line, line))
        return KnownFindings(items)

    def findings(self, prop):
        return [k for k in self.items if k.kind == "finding" and k.prop == prop]

    def keys(self, prop):
        return set(k.sig for k in self.findings(prop))

    def match(self, prop, case, verdict):
        key = (verdict.obs or {}).get("kf_key")
        if key is None:
            return None
        import fnmatch
        for k in self.findings(prop):
            if k.sig == key or (k.sig and any(ch in k.sig for ch in "*?") and fnmatch.fnmatchcase(key, k.sig)):
                return k
        return None


# --------------------------------------------------------------------------- build

def copy_repo(dst):
    subprocess.check_call(["rsync", "-a", "--exclude", ".git", REPO + "/", dst + "/"])


def build_mockery(ctx, tools=False):
    """Copy /repo's working tree into the scratch root and build from the copy."""
    src = os.path.join(ctx.root, "src")
    if not os.path.isdir(src):
        os.makedirs(src)
        copy_repo(src)
    ctx.src = src
    bindir = os.path.join(ctx.root, "bin")
    os.makedirs(bindir, exist_ok=True)
    env = base_env()
    t = time.time()
    if tools:
        out = os.path.join(bindir, "mockery-tools")
        p = subprocess.run(["go", "build", "-trimpath", "-tags", GUARD_TAG, "-o", out, "."], cwd=os.path.join(src, "tools"),
                           env=env, capture_output=True, text=True)
    else:
        out = os.path.join(bindir, "mockery")
        # -trimpath: the scratch copy has a fresh path on every run; without it every run would add a full set of objects to the build cache
        p = subprocess.run(["go", "build", "-trimpath", "-tags", GUARD_TAG, "-o", out, "."], cwd=src, env=env,
                           capture_output=True, text=True)
    if p.returncode != 0:
        sys.stderr.write(p.stdout + p.stderr)
        raise BuildError("build of /repo working tree failed")
    ctx.log("built %s in %.1fs" % (os.path.basename(out), time.time() - t))
    if not tools:
        ctx.mockery = out
    return out


class BuildError(Exception):
    pass


_gosum = None


def go_sum_text():
    global _gosum
    if _gosum is None:
        lines = set()
        for p in ("go.sum", "tools/go.sum", "go.work.sum"):
            fp = os.path.join(REPO, p)
            if os.path.exists(fp):
                lines.update(l for l in open(fp).read().splitlines() if l.strip())
        extra = os.path.join(VERIF, "gohelpers", "go.sum")
        if os.path.exists(extra):
            lines.update(l for l in open(extra).read().splitlines() if l.strip())
        _gosum = "\n".join(sorted(lines)) + "\n"
    return _gosum


GOMOD_TMPL = """module %s

go 1.23

require github.com/stretchr/testify v1.10.0

require (
	github.com/davecgh/go-spew v1.1.2-0.20180830191138-d8f796af33cc // indirect
	github.com/pmezard/go-difflib v1.0.1-0.20181226105442-5d4384ee4fb2 // indirect
	github.com/stretchr/objx v0.5.2 // indirect
	gopkg.in/yaml.v3 v3.0.1 // indirect
)
"""


def write_tree(root, files):
    """files: {relpath: str|bytes|None(=directory)|('symlink', target)|('mode', mode, content)}"""
    for rel, content in files.items():
        p = os.path.join(root, rel)
        if content is None:
            os.makedirs(p, exist_ok=True)
            continue
        os.makedirs(os.path.dirname(p), exist_ok=True)
        mode = None
        if isinstance(content, (tuple, list)):
            if content[0] == "symlink":
                os.symlink(content[1], p)
                continue
            if content[0] == "mode":
                mode, content = content[1], content[2]
        if isinstance(content, str):
            content = content.encode()
        with open(p, "wb") as f:
            f.write(content)
        if mode is not None:
            os.chmod(p, mode)


def scratch_module(ctx, files, modpath="example.com/m", gomod=None):
    d = ctx.newdir("m")
    # resolve symlinks so that paths printed by tools equal ours
    d = os.path.realpath(d)
    base = {"go.mod": gomod if gomod is not None else GOMOD_TMPL % modpath, "go.sum": go_sum_text()}
    base.update(files)
    write_tree(d, base)
    return d



class FifoFeeder:
    """A named pipe at `path` that hands `data` to every reader that opens it (stat size 0, content only arrives by reading to end of file): what
    `--config <(gen)`, `boilerplate-file: /dev/stdin` or a secrets mount look like to the tool. The feeder never blocks the harness: it polls for a
    reader with a non-blocking open and is stopped by close(). Its timing decides nothing: a verdict only looks at what the tool did with the content."""

    def __init__(self, path, data):
        import threading
        self.path, self.data, self.stop, self.served = path, data if isinstance(data, bytes) else data.encode(), False, 0
        if os.path.lexists(path):
            os.unlink(path)
        os.mkfifo(path)
        self.t = threading.Thread(target=self._run, daemon=True)
        self.t.start()

    def _run(self):
        import errno, time
        while not self.stop:
            try:
                fd = os.open(self.path, os.O_WRONLY | os.O_NONBLOCK)
            except OSError as e:
                if e.errno in (errno.ENXIO, errno.ENOENT):
                    time.sleep(0.01)
                    continue
                return
            try:
                os.set_blocking(fd, True)
                os.write(fd, self.data)
                self.served += 1
            except OSError:
                pass
            finally:
                os.close(fd)
            time.sleep(0.05)   # let the reader see end of file before the next open can succeed

    def close(self):
        self.stop = True
        self.t.join(timeout=5)


# --------------------------------------------------------------------------- snapshots

def snapshot(root, skip=()):
    snap = {}
    for dp, dns, fns in os.walk(root):
        dns.sort()
        rel = os.path.relpath(dp, root)
        if rel != ".":
            st = os.lstat(dp)
            snap[rel + "/"] = ("dir", st.st_mode & 0o7777, "")
        for fn in sorted(fns):
            p = os.path.join(dp, fn)
            r = os.path.normpath(os.path.join(rel, fn))
            if r in skip:
                continue
            st = os.lstat(p)
            if os.path.islink(p):
                snap[r] = ("link", 0, os.readlink(p))
            elif not _stat.S_ISREG(st.st_mode):
                snap[r] = ("special", st.st_mode, "")   # FIFOs, sockets, devices: never opened by the harness
            else:
                try:
                    with open(p, "rb") as f:
                        h = hashlib.sha256(f.read()).hexdigest()
                except OSError as e:
                    h = "unreadable:%s" % e.errno
                snap[r] = ("file", st.st_mode & 0o7777, h)
        for dn in list(dns):
            p = os.path.join(dp, dn)
            if os.path.islink(p):
                snap[os.path.normpath(os.path.join(rel, dn))] = ("link", 0, os.readlink(p))
                dns.remove(dn)
    return snap


def snap_diff(a, b):
    out = {}
    for k in sorted(set(a) | set(b)):
        if a.get(k) != b.get(k):
            out[k] = (a.get(k), b.get(k))
    return out


def tree_hash(snap):
    return hashlib.sha256(json.dumps(sorted(snap.items())).encode()).hexdigest()


# --------------------------------------------------------------------------- process runner

PANIC_RE = re.compile(r"(?m)^(panic: |goroutine \d+ \[running\]|fatal error: )")
ERRLINE_RE = re.compile(r"(?m)( ERR | FTL |\bERR\b|\bFTL\b|^Error:|error)")


class Result:
    __slots__ = ("exit", "out", "err", "timed_out", "cpu_killed", "events", "wall", "signal", "tracer_failed", "blocked")

    def __init__(self):
        self.exit = None
        self.out = ""
        self.err = ""
        self.timed_out = False
        self.cpu_killed = False
        self.blocked = False
        self.events = []
        self.wall = 0.0
        self.signal = None
        self.tracer_failed = False

    @property
    def panicked(self):
        return bool(PANIC_RE.search(self.err) or PANIC_RE.search(self.out))

    @property
    def has_diag(self):
        return bool((self.err + self.out).strip())

    def brief(self, n=1200):
        return {"exit": self.exit, "stderr_tail": self.err[-n:], "stdout_tail": self.out[-400:],
                "timed_out": self.timed_out}


STRACE_SYSCALLS = ("open,openat,openat2,creat,rename,renameat,renameat2,unlink,unlinkat,mkdir,mkdirat,rmdir,"
                   "truncate,ftruncate,link,linkat,symlink,symlinkat,chmod,fchmod,fchmodat,chown,fchownat,utimensat")

_strace_ok = None


def strace_available():
    global _strace_ok
    if _strace_ok is None:
        try:
            p = subprocess.run(["strace", "-f", "--seccomp-bpf", "-qq", "-e", "trace=openat", "-o", "/dev/null", "true"],
                               capture_output=True, timeout=20)
            _strace_ok = p.returncode == 0
        except Exception:
            _strace_ok = False
    return _strace_ok


def _group_state(pgid):
    """(number of processes, all threads sleeping?, total CPU ticks) of a process group, from /proc"""
    n, ticks, all_sleeping = 0, 0, True
    for ent in os.listdir("/proc"):
        if not ent.isdigit():
            continue
        try:
            st = open("/proc/%s/stat" % ent).read()
            rest = st[st.rindex(")") + 2:].split()
            if int(rest[2]) != pgid:      # field 5: pgrp
                continue
            n += 1
            ticks += int(rest[11]) + int(rest[12])   # utime + stime
            for t in os.listdir("/proc/%s/task" % ent):
                ts = open("/proc/%s/task/%s/stat" % (ent, t)).read()
                if ts[ts.rindex(")") + 2] not in "SI":   # R running/runnable, D disk wait, Z/T...: not (only) sleeping
                    all_sleeping = False
        except (OSError, ValueError, IndexError):
            continue
    return n, all_sleeping, ticks


def run(cmd, cwd, env=None, timeout=600, strace_root=None, cpu_limit=None, stdin=None, ctx=None, block_window=None, nofile=None):
    """Run a child. timeout is a wall-clock *watchdog* (=> inconclusive, never a verdict).
    cpu_limit (seconds) is enforced with RLIMIT_CPU and is load-independent.
    block_window (seconds, opt-in): the child's process group is sampled once a second; if for that many consecutive samples every thread of every
    process in it is sleeping and the group has consumed no CPU at all, it is blocked (a starved process is runnable, not sleeping): killed, r.blocked."""
    env = env if env is not None else scratch_env()
    r = Result()
    trace_file = None
    full = list(cmd)
    if strace_root is not None:
        fd, trace_file = tempfile.mkstemp(prefix="st.", dir=(ctx.root if ctx else None))
        os.close(fd)
        # --seccomp-bpf: only the traced syscalls stop the tracee (several times cheaper, same events)
        full = ["strace", "-f", "--seccomp-bpf", "-y", "-qq", "-s", "4096", "-e", "trace=" + STRACE_SYSCALLS, "-o", trace_file] + full

    def pre():
        os.setsid()
        if cpu_limit:
            resource.setrlimit(resource.RLIMIT_CPU, (cpu_limit, cpu_limit + 5))
        if nofile:
            resource.setrlimit(resource.RLIMIT_NOFILE, (nofile, nofile))   # a small descriptor table: what the run keeps open at once becomes observable

    t = time.time()
    p = subprocess.Popen(full, cwd=cwd, env=env, stdout=subprocess.PIPE, stderr=subprocess.PIPE,
                         stdin=subprocess.PIPE if stdin is not None else subprocess.DEVNULL, preexec_fn=pre)
    if block_window:
        import threading
        stop_mon = threading.Event()

        def monitor():
            still, last = 0, None
            while not stop_mon.wait(1.0):
                n, sleeping, ticks = _group_state(p.pid)
                if n == 0:
                    return
                if sleeping and ticks == last:
                    still += 1
                    if still >= block_window:
                        r.blocked = True
                        try:
                            os.killpg(p.pid, signal.SIGKILL)
                        except ProcessLookupError:
                            pass
                        return
                else:
                    still = 0
                last = ticks
        threading.Thread(target=monitor, daemon=True).start()
    try:
        out, err = p.communicate(stdin, timeout=timeout)
    except subprocess.TimeoutExpired:
        r.timed_out = True
        try:
            os.killpg(p.pid, signal.SIGKILL)
        except ProcessLookupError:
            pass
        out, err = p.communicate()
    if block_window:
        stop_mon.set()
    r.wall = time.time() - t
    r.out = out.decode("utf-8", "replace")
    r.err = err.decode("utf-8", "replace")
    r.exit = p.returncode
    if p.returncode is not None and p.returncode < 0:
        r.signal = -p.returncode
        if r.signal in (signal.SIGXCPU, signal.SIGKILL) and cpu_limit and not r.timed_out:
            r.cpu_killed = True
    if "no space left on device" in r.err or "no space left on device" in r.out:
        # the machine ran out of disk: whatever the child reported is about the environment, not about mockery (inconclusive everywhere)
        r.timed_out = True
        r.tracer_failed = True
    if trace_file:
        # the tracer itself can fail under load (ptrace(PTRACE_LISTEN): Input/output error, attach races): the run then says nothing
        # about the tracee. Such a run is reported like a watchdog firing, i.e. every check treats it as inconclusive.
        if re.search(r"^strace: (ptrace\(|attach:|Process \d+ detached unexpectedly|cannot|Cannot)", r.err, re.M):
            r.tracer_failed = True
            r.timed_out = True
        try:
            r.events = parse_strace(trace_file, strace_root)
            if "+++ killed by SIGXCPU" in open(trace_file, errors="replace").read()[-4000:]:
                r.cpu_killed = True
        finally:
            os.unlink(trace_file)
    return r


_ST_LINE = re.compile(r"^(\d+)\s+(\w+)\((.*)\)\s+=\s+(-?\d+|\?)(.*)$")
_ST_STR = re.compile(r'"((?:[^"\\]|\\.)*)"')
_ST_DIRFD = re.compile(r"^(?:AT_FDCWD|\d+)<([^>]*)>")


def _unescape(s):
    try:
        return s.encode("latin-1", "backslashreplace").decode("unicode_escape").encode("latin-1", "replace").decode("utf-8", "replace")
    except Exception:
        return s


def parse_strace(path, root):
    """Return mutation events under root: list of dicts {op, path, path2?, ok, flags}."""
    root = os.path.realpath(root)
    evs = []
    unfinished = {}
    for raw in open(path, errors="replace"):
        raw = raw.rstrip("\n")
        m0 = re.match(r"^(\d+)\s+(.*)$", raw)
        if not m0:
            continue
        pid, rest = m0.group(1), m0.group(2)
        if rest.endswith("<unfinished ...>"):
            unfinished[pid] = rest[:-len("<unfinished ...>")]
            continue
        mres = re.match(r"^<\.\.\. (\w+) resumed>(.*)$", rest)
        if mres:
            rest = unfinished.pop(pid, "") + mres.group(2)
        m = _ST_LINE.match(pid + " " + rest)
        if not m:
            continue
        name, args, ret = m.group(2), m.group(3), m.group(4)
        ok = ret not in ("?",) and not ret.startswith("-")

        def absolutize(dirpart, p):
            if p.startswith("/"):
                return os.path.normpath(p)
            return os.path.normpath(os.path.join(dirpart or "/", p))

        strs = [_unescape(s) for s in _ST_STR.findall(args)]
        # split top-level args roughly to find dirfds
        dirfds = re.findall(r"(?:AT_FDCWD|\b\d+)<([^>]*)>", args)
        ev = None
        if name in ("openat", "openat2"):
            d = dirfds[0] if dirfds else None
            if not strs:
                continue
            p = absolutize(d, strs[0])
            flags = args.split(strs[0] + '"', 1)[-1] if strs[0] else args
            write = any(f in flags for f in ("O_WRONLY", "O_RDWR", "O_CREAT", "O_TRUNC", "O_APPEND"))
            if not write:
                continue
            ev = {"op": "open_w", "path": p, "ok": ok, "flags": ",".join(sorted(set(re.findall(r"O_[A-Z]+", flags))))}
        elif name in ("open", "creat"):
            if not strs:
                continue
            # cwd unknown for relative paths without -y info; strace -y does not annotate. treat relative as unknown
            p = strs[0]
            flags = args
            write = name == "creat" or any(f in flags for f in ("O_WRONLY", "O_RDWR", "O_CREAT", "O_TRUNC", "O_APPEND"))
            if not write:
                continue
            ev = {"op": "open_w", "path": os.path.normpath(p), "ok": ok, "flags": "legacy"}
        elif name in ("rename", "renameat", "renameat2", "link", "linkat", "symlink", "symlinkat"):
            if len(strs) < 2:
                continue
            ds = dirfds + [None, None]
            if name in ("rename", "link", "symlink"):
                a, b = strs[0], strs[1]
            elif name == "symlinkat":
                a, b = strs[0], absolutize(ds[0], strs[1])
            else:
                a, b = absolutize(ds[0], strs[0]), absolutize(ds[1] if len(dirfds) > 1 else ds[0], strs[1])
            ev = {"op": name.rstrip("at2").rstrip("at") if False else re.sub(r"(at2?|at)$", "", name),
                  "path": os.path.normpath(a), "path2": os.path.normpath(b), "ok": ok}
        elif name in ("unlink", "unlinkat", "mkdir", "mkdirat", "rmdir", "truncate", "chmod", "fchmodat",
                      "chown", "fchownat", "utimensat"):
            if not strs:
                continue
            d = dirfds[0] if dirfds and name.endswith("at") else None
            p = absolutize(d, strs[0]) if name.endswith("at") else os.path.normpath(strs[0])
            ev = {"op": re.sub(r"at$", "", name), "path": p, "ok": ok}
        elif name in ("ftruncate", "fchmod"):
            if dirfds:
                ev = {"op": name, "path": os.path.normpath(dirfds[0]), "ok": ok}
        if ev is None:
            continue
        paths = [ev["path"]] + ([ev["path2"]] if "path2" in ev else [])
        if any(p == root or p.startswith(root + "/") for p in paths):
            ev["pid"] = pid
            evs.append(ev)
    return evs


# --------------------------------------------------------------------------- mockery helpers

def run_mockery(ctx, cwd, args=(), env_extra=None, strace=False, timeout=600, cpu_limit=None, root=None, block_window=None, nofile=None):
    # every run of the tool is bounded in CPU time (a logical, load-independent measure; an ordinary run needs a few seconds): a run that spins is killed
    # by the kernel and shows up as a negative exit status, which no check takes for success. The wall-clock timeout stays a mere watchdog.
    cpu_limit = cpu_limit or min(200, max(40, timeout // 3))   # well below the wall-clock watchdog, so that a spinning run is decided by the logical measure
    env = scratch_env(env_extra)
    return run([ctx.mockery] + list(args), cwd=cwd, env=env, timeout=timeout,
               strace_root=(root or cwd) if strace else None, cpu_limit=cpu_limit, ctx=ctx, block_window=block_window, nofile=nofile)


def go_vet(cwd, pkgs=("./...",), tags=None, timeout=900):
    cmd = ["go", "vet"]
    if tags:
        cmd += ["-tags", tags]
    cmd += list(pkgs)
    return run(cmd, cwd=cwd, env=scratch_env(), timeout=timeout)


def go_compile(cwd, pkgs=("./...",), tags=None, timeout=900):
    """Parse + type-check + compile packages including their test files, running nothing and no vet
    analyzers: the toolchain as validity oracle (`go test -run ^$ -vet=off`)."""
    cmd = ["go", "test", "-trimpath", "-count=1", "-run", "^$", "-vet=off"]
    if tags:
        cmd += ["-tags", tags]
    cmd += list(pkgs)
    return run(cmd, cwd=cwd, env=scratch_env(), timeout=timeout)


def go_cmd(args, cwd, timeout=900, env_extra=None):
    return run(["go"] + list(args), cwd=cwd, env=scratch_env(env_extra), timeout=timeout)


def jdump(obj):
    return json.dumps(obj, indent=1, sort_keys=True)


def helper_bin(name):
    p = os.path.join(VERIF, "gohelpers", "bin", name)
    if not os.path.exists(p):
        raise RuntimeError("gohelpers not built (run MANIFEST.setup_cmd): %s" % p)
    return p


def guard_disk(min_free_gb=25):
    """Scratch modules have fresh paths, so runs add to the Go build cache. When the disk runs low the cache is emptied as a whole
    (`go clean -cache`): removing individual entries by age leaves index entries whose data file is gone, and the linker then fails
    with "cannot open file ...-d" (seen once; see DESIGN 10.11). A build that runs concurrently with the clean-up may fail once;
    such a failure is an INCONCLUSIVE build error, never a verdict. Nothing is removed while there is room."""
    try:
        cache = os.environ.get("GOCACHE") or os.path.expanduser("~/.cache/go-build")
        st = os.statvfs(cache if os.path.isdir(cache) else "/")
        if st.f_bavail * st.f_frsize >= min_free_gb * (1 << 30) or not os.path.isdir(cache):
            return
        subprocess.run(["go", "clean", "-cache"], env=base_env(), stdout=subprocess.DEVNULL, stderr=subprocess.DEVNULL, timeout=1800)
    except Exception:
        pass


def main_wrapper(prop, level, body):
    """Common CLI: python3 -m vlib.cXX --tier quick|thorough"""
    guard_disk()
    import argparse
    ap = argparse.ArgumentParser()
    ap.add_argument("--tier", default=os.environ.get("VERIF_TIER", "quick"), choices=["quick", "thorough"])
    ap.add_argument("--replay", default=None)
    a = ap.parse_args()
    seed = int(os.environ.get("VERIF_SEED", "1") or 1)
    ctx = Ctx(prop, a.tier, seed, level)
    try:
        if a.replay:
            rc = body(ctx, replay=load_replay(a.replay))
        else:
            rc = body(ctx, replay=None)
    except BuildError as e:
        print("INCONCLUSIVE property=%s %s" % (prop, e))
        rc = 2
    finally:
        ctx.cleanup()
        guard_disk()
    sys.exit(rc)


def load_replay(path):
    if os.path.isdir(path):
        path = os.path.join(path, "case.json")
    return json.load(open(path))["case"]


# --------------------------------------------------------------------------- in-process harness packages (P4)

def build_harness(ctx, name, race=False):
    """Copy /verif/godrv/<name>/*.go into the scratch *copy of the working tree* as package
    ./zzverif_<name> and build it there (workspace mode, exactly the module versions the
    repository itself builds with). /repo is never touched."""
    if ctx.src is None:
        src = os.path.join(ctx.root, "src")
        os.makedirs(src)
        copy_repo(src)
        ctx.src = src
    d = os.path.join(ctx.src, "zzverif_" + name)
    os.makedirs(d, exist_ok=True)
    srcdir = os.path.join(VERIF, "godrv", name)
    for fn in os.listdir(srcdir):
        if fn.endswith(".go"):
            shutil.copy(os.path.join(srcdir, fn), os.path.join(d, fn))
    out = os.path.join(ctx.root, "bin", "h_" + name + ("_race" if race else ""))
    os.makedirs(os.path.dirname(out), exist_ok=True)
    cmd = ["go", "build", "-trimpath", "-tags", GUARD_TAG] + (["-race"] if race else []) + ["-o", out, "./zzverif_" + name]
    t = time.time()
    p = subprocess.run(cmd, cwd=ctx.src, env=base_env(), capture_output=True, text=True)
    if p.returncode != 0:
        sys.stderr.write(p.stdout + p.stderr)
        raise BuildError("harness %s does not build against the working tree" % name)
    ctx.log("built harness %s in %.1fs" % (name, time.time() - t))
    return out
