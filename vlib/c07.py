"""C07 — exactly the configured interfaces and packages are mocked, once per config entry.

Plane P1: the real binary renders a JSON-ish probe template; the monitor collects the multiset
of (source package, interface, struct name) over every file written and compares it with the
selection model (vlib/cfgmodel.py), on (a) a decision table over all/listed/include/exclude x
declaration kind x exportedness x configuration level, (b) random package trees for
`recursive`, (c) `configs` lists, (d) bystander packages.
"""
import itertools
import json
import os
import random
from collections import Counter

from . import core, cfgmodel, probe
from .core import Verdict

MOD = "example.com/m"

# declaration kinds: (id, is a mockable interface?, asserted?)
KINDS = [
    ("plain", True), ("generic", True), ("inst1", True), ("inst2", True), ("embed", True),
    ("struct", False), ("functype", False), ("structinst", False), ("basic", False),
]


def decl(kind, name):
    if kind == "plain":
        return "type %s interface{ M%s(x int) error }" % (name, "")
    if kind == "generic":
        return "type %s[T any] interface{ Get(k string) (T, bool) }" % name
    if kind == "inst1":
        return "type %s GBase[int]" % name
    if kind == "inst2":
        return "type %s GBase2[int, string]" % name
    if kind == "embed":
        return "type %s interface {\n\tEBase\n\tExtra() string\n}" % name
    if kind == "struct":
        return "type %s struct{ F int }" % name
    if kind == "functype":
        return "type %s func(int) error" % name
    if kind == "structinst":
        return "type %s GStruct[int]" % name
    if kind == "basic":
        return "type %s int" % name
    raise ValueError(kind)


SUPPORT = """
// support declarations (their names never match the regexes used by the table: no Inc/Exc tokens)
type GBase[T any] interface{ Put(v T) }
type GBase2[K comparable, V any] interface{ Set(k K, v V) }
type EBase interface{ Base() }
type GStruct[T any] struct{ V T }

func helper() {
	type LocalOnly interface{ L() }
	type EBase interface{ Shadow() }
	var _ LocalOnly
	var _ EBase
	_ = func() {
		type InLit interface{ Q() }
		var _ InLit
	}
}

// function literals that are not inside any function declaration
var pkgLevelLit = func() int {
	type EBase interface{ ShadowInLit() }
	type LitOnly interface{ Z() }
	var _ EBase
	var _ LitOnly
	return 0
}()

var pkgLevelLit2 = []func(){func() {
	type GBase interface{ AlsoShadow() }
	var _ GBase
}}

// bystanders: forms whose status the property does not decide (never asserted)
type AliasOfBase = EBase
type DefinedFromBase EBase
type AliasOfInst = GBase[string]
type AliasOfInst2 = GBase2[int, string]
type AliasOfStructInst = GStruct[int]

// parenthesised type expressions are legal Go
type ParenIface (interface{ PI() })
type ParenBasic (int)
type ParenFunc (func(int) error)
"""
SUPPORT_IFACES = {"GBase", "GBase2", "EBase"}          # mockable, names without Inc/Exc
BYSTANDERS = {"AliasOfBase", "DefinedFromBase", "AliasOfInst", "AliasOfInst2", "AliasOfStructInst", "ParenIface", "ParenBasic", "ParenFunc"}          # ignored in comparisons


def table_package():
    """One package with every (kind x exported x hasInc x hasExc x listed) declaration."""
    decls, rows = [], []
    for (kind, mockable), exported, inc, exc, listed in itertools.product(KINDS, (True, False), (True, False), (True, False), (True, False)):
        nm = ("T" if exported else "t") + kind.capitalize() + ("Inc" if inc else "Nope") + ("Exc" if exc else "Keep") + ("L" if listed else "U")
        decls.append(decl(kind, nm))
        rows.append({"name": nm, "kind": kind, "mockable": mockable, "exported": exported, "inc": inc, "exc": exc, "listed": listed})
    src = "package tbl\n\n" + "\n\n".join(decls) + "\n" + SUPPORT
    return src, rows


def struct_default(name):
    return ("Mock" if name[0].isupper() else "mock") + name


def gen_table_cases(ctx):
    rng = ctx.rng
    combos = []
    for allv in (None, True, False):
        for inc in (None, "Inc"):
            for exc in (None, "Exc"):
                for all_lvl, inc_lvl, exc_lvl in itertools.product(("root", "pkg"), repeat=3):
                    combos.append({"all": allv, "include": inc, "exclude": exc, "all_lvl": all_lvl, "inc_lvl": inc_lvl, "exc_lvl": exc_lvl})
    # drop placements that are meaningless (value unset)
    seen, uniq = set(), []
    for c in combos:
        key = (c["all"], c["include"], c["exclude"], c["all_lvl"] if c["all"] is not None else "-",
               c["inc_lvl"] if c["include"] else "-", c["exc_lvl"] if c["exclude"] else "-")
        if key not in seen:
            seen.add(key)
            uniq.append(c)
    # conflicting values at both levels: the package level must win
    for allv in (True, False):
        uniq.append({"all": allv, "include": "Inc", "exclude": "Exc", "all_lvl": "pkg", "inc_lvl": "pkg", "exc_lvl": "pkg",
                     "root_conflict": {"all": not allv, "include-interface-regex": "Nope", "exclude-interface-regex": "Keep"}})
    if ctx.tier == "quick":
        keep = [c for c in uniq if c.get("root_conflict")]
        rest = [c for c in uniq if not c.get("root_conflict")]
        rng.shuffle(rest)
        uniq = keep + rest[:max(10, len(rest) // 4)]
    return [dict(c, kind="table", listing=rng.choice(["some", "some", "none"]), gen_header=(k % 2 == 1)) for k, c in enumerate(uniq)]


def eval_table(ctx, case):
    src, rows = table_package()
    root_cfg = {"template": "file://probe.templ", "require-template-schema-exists": False, "formatter": "noop"}
    pkg_cfg = {}
    for key, val, lvl in (("all", case["all"], case["all_lvl"]), ("include-interface-regex", case["include"], case["inc_lvl"]),
                          ("exclude-interface-regex", case["exclude"], case["exc_lvl"])):
        if val is None:
            continue
        (root_cfg if lvl == "root" else pkg_cfg)[key] = val
    if case.get("root_conflict"):
        root_cfg.update(case["root_conflict"])
    listed = {}
    if case["listing"] == "some":
        for r in rows:
            if r["listed"] and r["mockable"]:
                listed[r["name"]] = None if hash(r["name"]) % 2 else {}
    pk = {"config": pkg_cfg}
    if listed:
        pk["interfaces"] = listed
    cfg = dict(root_cfg, packages={MOD + "/tbl": pk})
    if case.get("gen_header"):
        # the interfaces live in machine-generated source (protoc-gen-go-grpc, oapi-codegen ...): the header says nothing about what is selected
        src = "// Code generated by protoc-gen-go-grpc. DO NOT EDIT.\n// versions:\n// - protoc-gen-go-grpc v1.5.1\n\n" + src
    files = {"tbl/tbl.go": src, "other/o.go": "package other\n\ntype NotConfiguredInc interface{ M() }\n",
             "probe.templ": probe.probe_template("A"), ".mockery.yml": json.dumps(cfg)}
    root = core.scratch_module(ctx, files)
    v = core.go_vet(root)
    if v.exit != 0:
        return Verdict.inconclusive("generated package rejected by the toolchain: " + v.err[-600:])
    r = core.run_mockery(ctx, root, [], timeout=300)
    if r.timed_out:
        return Verdict.inconclusive("watchdog")
    obs = {"exit": r.exit}
    if r.panicked:
        return Verdict.violated("mockery crashed", dict(obs, **r.brief()))
    eff = cfgmodel.resolve([pkg_cfg, root_cfg])
    exp = Counter()
    for rrow in rows:
        if rrow["mockable"] and cfgmodel.selected(eff, listed, rrow["name"]):
            exp[(MOD + "/tbl", rrow["name"], struct_default(rrow["name"]))] += 1
    for nm in SUPPORT_IFACES:
        if cfgmodel.selected(eff, listed, nm):
            exp[(MOD + "/tbl", nm, struct_default(nm))] += 1
    if r.exit != 0:
        return Verdict.violated("valid configuration but mockery exited %s" % r.exit, dict(obs, **r.brief()))
    got = Counter()
    for f in probe.parse_tree(root):
        for i in f["ifaces"]:
            if i["name"] in BYSTANDERS:
                continue
            got[(f["file"]["srcpkg"] if f["file"] else "?", i["name"], i["struct"])] += 1
    obs.update({"expected_mocks": sum(exp.values()), "observed_mocks": sum(got.values())})
    if got != exp:
        missing = sorted((exp - got).elements())[:8]
        extra = sorted((got - exp).elements())[:8]
        return Verdict.violated("selection differs from the model: missing %s, unexpected %s (all=%s include=%s exclude=%s listing=%s)" %
                                (missing, extra, eff["all"], eff["include-interface-regex"], eff["exclude-interface-regex"], case["listing"]), obs)
    ctx.count("table_rows_decided", len(rows))
    return Verdict.held(obs, tags=["table", "all=%s" % case["all"], "inc=%s" % bool(case["include"]), "exc=%s" % bool(case["exclude"])])


# ------------------------------------------------------------------ recursive trees

def gen_tree_case(rng, i):
    """Random directory tree under pkg `t`: each dir gets a content class."""
    dirs = {}

    def grow(path, depth):
        cls = rng.choice(["go", "go", "go", "testonly", "tagged", "empty", "nomock"])
        dirs[path] = cls
        if depth < 4:
            for k in range(rng.choice([0, 1, 1, 2, 3]) if depth < 3 else rng.choice([0, 1])):
                grow(path + "/" + rng.choice(["api", "core", "internal", "util", "v2", "gen", "mocks"]) + str(k), depth + 1)

    dirs["t"] = "go"
    for k in range(rng.randint(1, 3)):
        grow("t/" + rng.choice(["svc", "lib", "pkg"]) + str(k), 1)
    paths = sorted(dirs)
    recursive_roots = ["t"] if rng.random() < 0.6 else []
    for p in paths[1:]:
        if rng.random() < 0.18:
            recursive_roots.append(p)
    if not recursive_roots:
        recursive_roots = ["t"]
    explicit = [p for p in paths if p not in recursive_roots and rng.random() < 0.12]
    # list entries are separate expressions: an inline flag in one entry must not reach the next (upper-case entries match no directory here)
    excl_root = rng.choice([None, None, ["internal"], ["/gen", "v2"], ["util0$"], ["(?i)/INTERNAL", "/CORE"], ["(?i)zzz", "/API", "UTIL"]])
    pkcfg = {}
    for n, rr in enumerate(recursive_roots):
        c = {"recursive": True, "structname": "R%d_{{.InterfaceName}}" % n}
        sel = rng.choice(["all", "all", "regex"])
        if sel == "all":
            c["all"] = True
        else:
            c["include-interface-regex"] = "^Svc"
            if rng.random() < 0.5:
                c["exclude-interface-regex"] = "Two$"
        if rng.random() < 0.4:
            c["exclude-subpkg-regex"] = rng.choice([["mocks"], ["core0"], ["api", "gen"], ["internal0/"], ["(?i)/MOCKS", "/CORE", "/Api"], ["(?s)gen.", "V2|UTIL"]])
        pkcfg[rr] = c
    for n, e in enumerate(explicit):
        pkcfg[e] = {"all": True, "structname": "E%d_{{.InterfaceName}}" % n}
    return {"kind": "tree", "i": i, "dirs": dirs, "pkcfg": pkcfg, "excl_root": excl_root,
            "root_recursive": rng.random() < 0.1}


def dir_files(path, cls):
    name = path.rsplit("/", 1)[-1]
    pk = "".join(ch for ch in name if ch.isalnum())
    a = "package %s\n\ntype SvcOne interface{ A() }\n\ntype SvcTwo interface{ B(x int) }\n\ntype Helper interface{ H() }\n\ntype Cfg struct{}\n" % pk
    if cls == "go":
        if len(path) % 2 == 0:   # every second package is machine-generated source; it also declares a parenthesised type
            a = "// Code generated by oapi-codegen version v2.4.1 DO NOT EDIT.\n\n" + a + "\ntype Count (int)\n"
        return {path + "/a.go": a}, ["SvcOne", "SvcTwo", "Helper"]
    if cls == "cgo":
        # one file of the package imports "C" (it is compiled from a generated copy, next to further generated files); it declares the first interface
        first, rest = a.split("\n\ntype SvcTwo", 1)
        first = first.replace("package %s\n" % pk, "package %s\n\n// #include <stdlib.h>\nimport \"C\"\n\nfunc Rand() int { return int(C.rand()) }\n" % pk, 1)
        return {path + "/zz_native.go": first + "\n", path + "/a.go": "package %s\n\ntype SvcTwo%s" % (pk, rest)}, ["SvcOne", "SvcTwo", "Helper"]
    if cls == "testonly":
        return {path + "/a_test.go": a}, []
    if cls == "tagged":
        return {path + "/a.go": "//go:build neverset\n\n" + a}, []
    if cls == "nomock":
        return {path + "/a.go": "package %s\n\ntype Cfg struct{}\n\nfunc F() {}\n" % pk}, []
    return {path + "/.keep": ""}, []


def eval_tree(ctx, case):
    files = {"probe.templ": probe.probe_template("A")}
    ifaces = {}
    for path, cls in case["dirs"].items():
        f, names = dir_files(path, cls)
        files.update(f)
        ifaces[path] = names
    root_cfg = {"template": "file://probe.templ", "require-template-schema-exists": False, "formatter": "noop"}
    if case["excl_root"]:
        root_cfg["exclude-subpkg-regex"] = case["excl_root"]
    written = {p: dict(c) for p, c in case["pkcfg"].items()}
    env_extra = None
    rr = case.get("root_recursive")
    if rr:
        # the same configuration with `recursive: true` made at the top level (config file or MOCKERY_RECURSIVE): the recursive packages
        # inherit it, every other configured package says `recursive: false` itself (an explicit default is a setting)
        rr = rr if isinstance(rr, str) else ("file" if case["i"] % 2 else "env")
        for p, c in written.items():
            if c.get("recursive"):
                del c["recursive"]
            else:
                c["recursive"] = False
        if rr == "file":
            root_cfg = dict(root_cfg, recursive=True)
        else:
            env_extra = {"MOCKERY_RECURSIVE": "true"}
    cfg = dict(root_cfg, packages={MOD + "/" + p: {"config": c} for p, c in written.items()})
    files[".mockery.yml"] = json.dumps(cfg)
    root_cfg = {k: v for k, v in root_cfg.items() if k != "recursive"}   # (the model below works on the per-package form)
    if case.get("env_root"):
        # top-level selection settings given through the environment instead of the file (string values that read like booleans stay strings)
        env_extra = dict(env_extra or {}, **{"MOCKERY_" + k.upper().replace("-", "_"): v for k, v in case["env_root"].items()})
        root_cfg = dict(root_cfg, **case["env_root"])
    root = core.scratch_module(ctx, files)
    r = core.run_mockery(ctx, root, [], timeout=300, env_extra=env_extra)
    if r.timed_out:
        return Verdict.inconclusive("watchdog")
    obs = {"exit": r.exit, "root_recursive": rr or None}
    if r.panicked:
        return Verdict.violated("mockery crashed", dict(obs, **r.brief()))
    # model
    exp = Counter()
    undecided = set()
    configured = set(case["pkcfg"])
    rec_roots = [p for p, c in case["pkcfg"].items() if c.get("recursive")]
    for path, names in ifaces.items():
        if path in configured:
            eff = cfgmodel.resolve([case["pkcfg"][path], root_cfg])
            owner = path
        else:
            anc = [a for a in rec_roots if path.startswith(a + "/")]
            if not anc:
                continue
            owner = max(anc, key=len)  # nearest configured recursive ancestor
            eff = cfgmodel.resolve([case["pkcfg"][owner], root_cfg])
            full = MOD + "/" + path

            def excluded_by(a):
                ea = cfgmodel.resolve([case["pkcfg"][a], root_cfg])
                return any(cfgmodel.go_regex_search(rx, full) for rx in ea["exclude-subpkg-regex"])
            if excluded_by(owner):
                if any(not excluded_by(a) for a in anc if a != owner):
                    # excluded by the nearest recursive ancestor but not by a farther one: the statement does not
                    # decide whether (and with whose settings) it is added -> bystander package, not asserted
                    undecided.add(MOD + "/" + path)
                continue
        for nm in names:
            if cfgmodel.selected(eff, {}, nm):
                sn = eff["structname"].replace("{{.InterfaceName}}", nm).replace("{{.Mock}}", "Mock")
                exp[(MOD + "/" + path, nm, sn)] += 1
    # a configured package whose directory holds no buildable Go file fails to load, unless it merely roots other configured packages
    final_pkgs = set(configured)
    for path, cls in case["dirs"].items():
        if cls in ("go", "nomock", "cgo") and path not in configured:
            anc = [a for a in rec_roots if path.startswith(a + "/")]
            for a in anc:
                effa = cfgmodel.resolve([case["pkcfg"][a], root_cfg])
                if not any(cfgmodel.go_regex_search(rx, MOD + "/" + path) for rx in effa["exclude-subpkg-regex"]):
                    final_pkgs.add(path)
    unloadable = [p for p in configured if case["dirs"][p] in ("empty", "tagged") and not any(q.startswith(p + "/") for q in final_pkgs)]
    if unloadable:
        if r.exit == 0:
            return Verdict.violated("configured package(s) %s cannot be loaded but mockery exited 0" % unloadable, dict(obs, **r.brief()))
        return Verdict.held(dict(obs, unloadable=unloadable), nontrivial=False, tags=["tree", "unloadable-configured-package"])
    if r.exit != 0:
        return Verdict.violated("valid recursive configuration but mockery exited %s" % r.exit, dict(obs, **r.brief()))
    got = Counter()
    for f in probe.parse_tree(root):
        for i in f["ifaces"]:
            if f["file"]["srcpkg"] in undecided:
                continue
            got[(f["file"]["srcpkg"], i["name"], i["struct"])] += 1
    obs.update({"expected_mocks": sum(exp.values()), "observed_mocks": sum(got.values()), "dirs": len(case["dirs"]), "recursive_roots": sorted(rec_roots),
                "undecided_packages": sorted(undecided)})
    if got != exp:
        return Verdict.violated("recursive selection/inheritance differs from the model: missing %s, unexpected %s" %
                                (sorted((exp - got).elements())[:8], sorted((got - exp).elements())[:8]),
                                dict(obs, config=cfg, dirs=case["dirs"]))
    nested = any(a != b and b.startswith(a + "/") for a in rec_roots for b in rec_roots)
    return Verdict.held(obs, nontrivial=sum(exp.values()) > 0, tags=["tree", "nested-recursive" if nested else "flat-recursive"])


# ------------------------------------------------------------------ configs lists

def gen_configs_case(rng, i):
    ifs = {}
    for nm in ("Alpha", "beta", "Gamma"):
        n = rng.choice([None, 0, 1, 2, 3])
        if n is None:
            ifs[nm] = rng.choice([None, {}, {"config": {}}])
        else:
            ifs[nm] = {"configs": [{"structname": "%s_v%d" % (nm.capitalize(), k)} for k in range(n)]}
            if rng.random() < 0.5:
                ifs[nm]["config"] = {"template-data": {"k": "v"}}
    return {"kind": "configs", "i": i, "ifs": ifs, "all": rng.random() < 0.3}


def eval_configs(ctx, case):
    src = "package c\n\ntype Alpha interface{ A() }\n\ntype beta interface{ B() }\n\ntype Gamma interface{ G() }\n\ntype Delta interface{ D() }\n"
    root_cfg = {"template": "file://probe.templ", "require-template-schema-exists": False, "formatter": "noop"}
    cfg = dict(root_cfg, packages={MOD + "/c": {"config": {"all": case["all"]}, "interfaces": case["ifs"]}})
    files = {"c/c.go": src, "probe.templ": probe.probe_template("A"), ".mockery.yml": json.dumps(cfg)}
    root = core.scratch_module(ctx, files)
    r = core.run_mockery(ctx, root, [], timeout=300)
    if r.timed_out:
        return Verdict.inconclusive("watchdog")
    obs = {"exit": r.exit}
    if r.panicked:
        return Verdict.violated("mockery crashed", dict(obs, **r.brief()))
    exp = Counter()
    for nm in ("Alpha", "beta", "Gamma", "Delta"):
        if nm in case["ifs"]:
            cs = (case["ifs"][nm] or {}).get("configs") or []
            if cs:
                for c in cs:
                    exp[(MOD + "/c", nm, c["structname"])] += 1
            else:
                exp[(MOD + "/c", nm, struct_default(nm))] += 1
        elif case["all"]:
            exp[(MOD + "/c", nm, struct_default(nm))] += 1
    if r.exit != 0:
        return Verdict.violated("valid configs lists but mockery exited %s" % r.exit, dict(obs, **r.brief()))
    got = Counter()
    for f in probe.parse_tree(root):
        for i in f["ifaces"]:
            got[(f["file"]["srcpkg"], i["name"], i["struct"])] += 1
    obs.update({"expected": sorted(exp.elements()), "observed": sorted(got.elements())})
    if got != exp:
        return Verdict.violated("mocks per configs entry differ from the model: missing %s, unexpected %s" %
                                (sorted((exp - got).elements()), sorted((got - exp).elements())), dict(obs, config=cfg))
    return Verdict.held(obs, tags=["configs"])


def fixed_tree_cases():
    """deterministic witness trees (one per workload dimension learned from a seeded change or a repaired defect)"""
    cases = []
    # fixed trees: two nested recursive packages with different selection, plus unrelated recursive packages whose import paths sort
    # between them ('-' and '.' sort before '/'): the nearest recursive ancestor decides, whatever order the packages are visited in
    for j in range(3):
        ndirs, npk = {"t": "go"}, {}
        for fam in ("api", "store", "zeta")[: 2 + j % 2]:
            for d in ("t/%s" % fam, "t/%s/inner" % fam, "t/%s/inner/leaf" % fam, "t/%s-gen" % fam, "t/%s.v2" % fam, "t/%s-gen/sub" % fam):
                ndirs[d] = "go"
            npk["t/%s" % fam] = {"recursive": True, "all": True, "structname": "Outer_{{.InterfaceName}}"}
            npk["t/%s/inner" % fam] = {"recursive": True, "include-interface-regex": "^Svc", "structname": "Inner_{{.InterfaceName}}"}
            npk["t/%s-gen" % fam] = {"recursive": True, "all": True, "structname": "Gen_{{.InterfaceName}}"}
            if j != 1:
                npk["t/%s.v2" % fam] = {"recursive": True, "include-interface-regex": "Helper", "structname": "V2_{{.InterfaceName}}"}
        cases.append({"kind": "tree", "i": 9700 + j, "dirs": ndirs, "pkcfg": npk, "excl_root": None, "root_recursive": False})
    # fixed trees: a recursive package nested under another one, next to a sibling whose directory name merely extends its name
    pdirs = {"t": "go", "t/store": "go", "t/store/sub": "go", "t/storetest": "go", "t/storetest/deep": "go", "t/sto": "go"}
    for j, (inner_cfg, outer_excl) in enumerate((({"recursive": True, "all": True, "structname": "R1_{{.InterfaceName}}"}, None),
                                                  ({"recursive": True, "all": True, "structname": "R1_{{.InterfaceName}}", "exclude-subpkg-regex": ["sub$"]}, ["storetest$"]))):
        outer = {"recursive": True, "include-interface-regex": "^Svc", "structname": "R0_{{.InterfaceName}}"}
        if outer_excl:
            outer["exclude-subpkg-regex"] = outer_excl
        cases.append({"kind": "tree", "i": 9600 + j, "dirs": pdirs, "pkcfg": {"t": outer, "t/store": inner_cfg}, "excl_root": None, "root_recursive": False})
    # fixed trees: every entry of an exclusion list is its own expression (flags, anchors and alternations do not reach the neighbours)
    fdirs = {"t": "go", "t/svc0": "go", "t/svc0/internal0": "go", "t/svc0/core0": "go", "t/svc0/api0": "go", "t/svc0/api0/gen0": "go", "t/lib0": "go", "t/lib0/util0": "go", "t/lib0/mocks0": "go"}
    for j, lst in enumerate([["(?i)/INTERNAL", "/CORE"], ["(?i)zzz", "/API", "UTIL"], ["/CORE", "(?i)/INTERNAL"], ["^internal0", "core0$"], ["api0$", "^example.com/m/t/lib0/u"], ["(?i)/MOCKS", "/Core0", "/gen0$"]]):
        for where in ("root", "pkg"):
            c = {"recursive": True, "all": True, "structname": "R0_{{.InterfaceName}}"}
            if where == "pkg":
                c["exclude-subpkg-regex"] = lst
            cases.append({"kind": "tree", "i": 9000 + j * 2 + (where == "pkg"), "dirs": fdirs, "pkcfg": {"t": c}, "excl_root": lst if where == "root" else None, "root_recursive": False})
    # fixed trees: packages with the same package NAME (last path element) and different selection settings, configured explicitly or discovered below
    # two recursive packages: each is selected with its own settings, whichever of them is looked at first
    sdirs = {"t": "go", "t/v1": "go", "t/v1/api": "go", "t/v2": "go", "t/v2/api": "go", "t/v3": "go", "t/v3/api": "go", "t/v4/api": "go"}
    sel = [{"all": True, "structname": "A_{{.InterfaceName}}"}, {"include-interface-regex": "^SvcOne$", "structname": "B_{{.InterfaceName}}"},
           {"include-interface-regex": "Helper", "structname": "C_{{.InterfaceName}}"}, {"all": True, "exclude-interface-regex": "^Svc", "structname": "D_{{.InterfaceName}}"}]
    cases.append({"kind": "tree", "i": 9800, "dirs": sdirs, "pkcfg": {"t/v1/api": sel[0], "t/v2/api": sel[1]}, "excl_root": None, "root_recursive": False})
    cases.append({"kind": "tree", "i": 9801, "dirs": sdirs, "pkcfg": {"t/v%d/api" % (k + 1): sel[k] for k in range(4)}, "excl_root": None, "root_recursive": False})
    cases.append({"kind": "tree", "i": 9802, "dirs": sdirs, "pkcfg": {"t/v1": dict(sel[0], recursive=True), "t/v2": dict(sel[1], recursive=True), "t/v3": dict(sel[2], recursive=True)},
                  "excl_root": None, "root_recursive": False})
    # fixed trees: a package one of whose files imports "C", discovered below a recursive package and configured itself
    cdirs = {"t": "go", "t/native": "cgo", "t/native/sub": "go", "t/plain": "go"}
    cases.append({"kind": "tree", "i": 9300, "dirs": cdirs, "excl_root": None, "root_recursive": False,
                  "pkcfg": {"t": {"recursive": True, "all": True, "structname": "R0_{{.InterfaceName}}"}}})
    cases.append({"kind": "tree", "i": 9301, "dirs": cdirs, "excl_root": None, "root_recursive": False,
                  "pkcfg": {"t/native": {"include-interface-regex": "^Svc", "structname": "E0_{{.InterfaceName}}"}, "t/plain": {"all": True, "structname": "E1_{{.InterfaceName}}"}}})
    # fixed trees: the include / exclude expressions come from the environment and read like booleans (T selects SvcTwo, f excludes nothing)
    cases.append({"kind": "tree", "i": 9200, "dirs": {"t": "go", "t/a": "go", "u": "go"}, "excl_root": None, "root_recursive": False,
                  "env_root": {"include-interface-regex": "T", "exclude-interface-regex": "f"},
                  "pkcfg": {"t": {"recursive": True, "structname": "R0_{{.InterfaceName}}"}, "u": {"structname": "E0_{{.InterfaceName}}"}}})
    cases.append({"kind": "tree", "i": 9201, "dirs": {"t": "go", "t/a": "go", "u": "go"}, "excl_root": None, "root_recursive": False,
                  "env_root": {"include-interface-regex": "t"},
                  "pkcfg": {"t": {"recursive": True, "structname": "R0_{{.InterfaceName}}"}, "u": {"structname": "E0_{{.InterfaceName}}", "exclude-interface-regex": "1"}}})
    # fixed trees: `recursive: true` made only at the top level (config file / MOCKERY_RECURSIVE), inherited by one package and refused by another
    gdirs = {"t": "go", "t/a": "go", "t/a/b": "go", "t/c": "testonly", "u": "go", "u/x": "go", "u/x/y": "go"}
    for j, mode in enumerate(("file", "env")):
        cases.append({"kind": "tree", "i": 9400 + j, "dirs": gdirs, "excl_root": None, "root_recursive": mode,
                      "pkcfg": {"t": {"recursive": True, "all": True, "structname": "R0_{{.InterfaceName}}"}, "u": {"all": True, "structname": "E0_{{.InterfaceName}}"}}})
    return cases


def eval_case(ctx, case):
    return {"table": eval_table, "tree": eval_tree, "configs": eval_configs}[case["kind"]](ctx, case)


def body(ctx, replay=None):
    core.build_mockery(ctx)
    ctx.rule = ("table cases: one package with all 144 (declaration kind x exported x include-token x exclude-token x listed) declarations + function-local "
                "types (one shadowing a package-level interface), run under every combination of all {unset,t,f} x include x exclude x level (root/package) "
                "(thorough: complete; quick: conflict rows + a quarter); tree cases: random directory trees (Go files / _test only / build-tag excluded / empty / "
                "no interfaces, depth <= 4) with nested recursive roots, explicit sub-package configs, exclude-subpkg-regex at root and package level; "
                "configs cases: configs lists of length 0-3. non-trivial = >= 1 expected mock; distinct = case hash")
    ctx.assumptions = ["`type X = I` and `type X I` forms are bystanders (never asserted)", "Go regexp semantics coincide with Python re on the patterns used",
                       "explicitly configured sub-packages follow their own config then the root (no ancestor level)"]
    if replay is not None:
        cases = [replay]
    else:
        cases = gen_table_cases(ctx)
        nt, nc = (50, 10) if ctx.tier == "quick" else (400, 60)
        cases += [gen_tree_case(ctx.rng, i) for i in range(nt)]
        # fixed trees: packages sharing one include pattern but differing in their exclude pattern (a decision made for one package must not be reused for another)
        rdirs = {"t": "go", "t/svc0": "go", "t/svc0/api0": "go", "t/lib0": "go", "t/lib0/core0": "go", "t/pkg0": "go", "t/pkg0/util0": "go", "t/zz0": "go"}
        for j, order in enumerate((["t/svc0", "t/lib0", "t/pkg0", "t/zz0"], ["t/zz0", "t/pkg0", "t/lib0", "t/svc0"])):
            exc = {"t/svc0": "Two$", "t/lib0": None, "t/pkg0": "One$", "t/zz0": "^Svc"}
            pk = {}
            for n, d in enumerate(order):
                c = {"recursive": d != "t/zz0", "include-interface-regex": "^Svc", "structname": "R%d_{{.InterfaceName}}" % n}
                if exc[d]:
                    c["exclude-interface-regex"] = exc[d]
                pk[d] = c
            cases.append({"kind": "tree", "i": 9500 + j, "dirs": rdirs, "pkcfg": pk, "excl_root": None, "root_recursive": False})
        cases += fixed_tree_cases()
        cases += [gen_configs_case(ctx.rng, i) for i in range(nc)]
        ctx.exhaustive = False
    ctx.run_cases(cases, eval_case)
    return ctx.finish()


if __name__ == "__main__":
    core.main_wrapper("C07", "exploration", body)
