"""C01 — generated mock files are valid Go in their destination package.

Planes P1 + P2: generated hostile packages (vlib/gosrc.py) are given to the real binary; the Go
toolchain that built it is the oracle (parse + type-check + compile of the destination package
together with the files written, no vet analyzers, no textual expectations).
"""
import json
import os
import random

from . import core, gosrc, mockgen
from .core import Verdict

CHUNK = 8


def td_options(rng, template):
    td = {}
    if template == "testify":
        u = rng.choice([None, True, False])
        if u is not None:
            td["unroll-variadic"] = u
    else:
        for k in ("skip-ensure", "stub-impl", "with-resets"):
            v = rng.choice([None, True, False])
            if v is not None:
                td[k] = v
    if rng.random() < 0.2:
        td["boilerplate-file"] = True
    if rng.random() < 0.2:
        td["mock-build-tags"] = "mocktag"
    return td


def gen_cases(ctx):
    rng = ctx.rng
    cases = []
    # every catalogue feature under both templates; formatter / placement / options rotate
    for inpkg in (True, False):
        g = gosrc.Gen(random.Random(ctx.seed * 31 + inpkg), inpkg_only=inpkg)
        cat = gosrc.catalogue(g)
        feats = [i["feature"] for i in cat]
        order = list(range(len(cat)))
        random.Random(ctx.seed * 7 + inpkg).shuffle(order)
        chunks = [order[k:k + CHUNK] for k in range(0, len(order), CHUNK)]
        # quick: in-package catalogue for testify+matryer, out-of-package catalogue once (template alternating)
        for ci, ch in enumerate(chunks):
            templates = ["testify", "matryer"] if (inpkg or ctx.tier == "thorough") else [["testify", "matryer"][ci % 2]]
            for t in templates:
                nrep = 1 if ctx.tier == "quick" else 3
                for rep in range(nrep):
                    pl = rng.choice(["inpkg", "inpkg-test"]) if inpkg else rng.choice(["xtest", "outpkg", "outpkg-collide"])
                    split = None
                    if (ci + rep) % 3 == 0:
                        split = {"opt": "unroll-variadic" if t == "testify" else ["skip-ensure", "stub-impl", "with-resets"][(ci // 3) % 3], "val": bool((ci // 3) % 2), "level": ["pkg", "root"][(ci // 6) % 2]}
                    cases.append({"kind": "catalogue", "td_split": split, "via_symlink": (ci + rep) % 4 == 1, "inpkg": inpkg, "genseed": ctx.seed * 31 + inpkg, "idx": ch, "template": t,
                                  "formatter": ["goimports", "gofmt", "noop"][(ci + rep + (t == "matryer")) % 3], "placement": pl, "td": td_options(rng, t),
                                  "gomod": rng.choice(["plain"] * 6 + list(mockgen.GOMOD_SPELLINGS)),
                                  "srckind": rng.choice(["ordinary"] * 5 + (["main", "name-ne-dir", "modroot", "modroot"] if inpkg else ["name-ne-dir"])),
                                  "dir_spelling": [None, "relative", None, "dotslash"][(ci + rep) % 4] if inpkg else None,
                                  "stale_outputs": (ci + rep) % 5 == 2, "golang": [None, "1.20", None, "1.21", None, "1.18"][(ci + rep) % 6]})
    n = 12 if ctx.tier == "quick" else 150
    for k in range(n):
        inpkg = rng.random() < 0.5
        t = rng.choice(["testify", "matryer"])
        cases.append({"kind": "random", "inpkg": inpkg, "genseed": rng.randrange(1 << 30), "count": 8, "template": t,
                      "formatter": rng.choice(["goimports", "gofmt", "noop"]), "placement": rng.choice(["inpkg", "inpkg-test"]) if inpkg else rng.choice(["xtest", "outpkg", "outpkg-collide"]),
                      "td": td_options(rng, t), "gomod": rng.choice(["plain"] * 4 + list(mockgen.GOMOD_SPELLINGS)), "srckind": "ordinary"})
    from . import c13
    for j, r in enumerate(c13.REPLACEMENTS[: (4 if ctx.tier == "quick" else 7)]):
        for fm in (("gofmt", "noop") if ctx.tier == "quick" else ("gofmt", "noop", "goimports")):
            cases.append({"kind": "replace-type", "seed": rng.randrange(1 << 30), "repl": {k: list(v) for k, v in r.items()}, "level": ["root", "pkg", "iface", "cfg"][j % 4],
                          "placement": ["inpkg", "outpkg"][j % 2], "builtin_formatter": fm, "template": "both", "formatter": fm})
    return cases


def case_ifaces(case):
    g = gosrc.Gen(random.Random(case["genseed"]), inpkg_only=case["inpkg"])
    if case["kind"] == "catalogue":
        cat = gosrc.catalogue(g)
        return [cat[i] for i in case["idx"]]
    return [gosrc.random_iface(g, i) for i in range(case["count"])]


def kf_key(case, iface, sig):
    return "c01:%s:%s:%s" % (case["template"], iface["feature"], sig)


def eval_case(ctx, case):
    if case["kind"] == "replace-type":
        # replace-type changes which imports a file needs: the built-in output must still compile, also without import repair
        from . import c13
        v = c13.eval_case(ctx, case)
        v.tags = ["replace-type"] + [t for t in v.tags if t.startswith("formatter=") or t.startswith("placement=")]
        return [(case, v)]
    ifaces = case_ifaces(case)
    if case.get("td_split"):
        # one option set at root or package level and overridden with the opposite value on every second interface
        sp = case["td_split"]
        case = dict(case, td=dict(case.get("td") or {}))
        case["td_by_name"] = {i["name"]: {sp["opt"]: not sp["val"]} for k, i in enumerate(ifaces) if k % 2 == 1}
        if sp["level"] == "pkg":
            case["td"].pop(sp["opt"], None)
            case["td_pkg"] = {sp["opt"]: sp["val"]}
        else:
            case["td"][sp["opt"]] = sp["val"]
    if case.get("only"):
        ifaces = [i for i in ifaces if i["name"] in case["only"]]
    root, info = mockgen.build_module(ctx, case, ifaces)
    pre = mockgen.precheck(root)
    if pre.exit != 0:
        return [(case, Verdict.inconclusive("generated package rejected by the toolchain: " + (pre.err + pre.out)[-600:]))]
    ok, failures, r = mockgen.run_generation(ctx, root, info, case, ifaces)
    tags = ["template=" + case["template"], "formatter=" + case["formatter"], "placement=" + case["placement"], "gomod=" + case.get("gomod", "plain"),
            "srckind=" + case.get("srckind", "ordinary")] + ["td." + k for k in (case.get("td") or {})] + (["td-split=" + case["td_split"]["opt"]] if case.get("td_split") else []) + (["cwd-via-symlink"] if case.get("via_symlink") else []) + (["dir=" + case["dir_spelling"]] if case.get("dir_spelling") else []) + (["outputs-exist-longer"] if case.get("stale_outputs") else []) + (["go-directive=" + case["golang"]] if case.get("golang") else [])
    verdicts = []
    by_name = {i["name"]: i for i in ifaces}
    for name, ri in failures.items():
        i = by_name[name]
        sig = "panic" if ri.panicked else "mockery-exit-%s" % ri.exit
        verdicts.append((dict(case, only=[name], feature=i["feature"]),
                         Verdict.violated("mockery cannot produce a mock for interface %s (feature %s, %s/%s/%s): %s" % (
                             name, i["feature"], case["template"], case["formatter"], case["placement"], sig),
                             dict(ri.brief(1500), iface=gosrc.render_iface(i), kf_key=kf_key(case, i, sig)), tags + ["feature=" + i["feature"]])))
    # restore the full configuration outputs are already on disk for the ok ones
    comp = mockgen.compile_all(root, info)
    if comp.timed_out:
        return [(case, Verdict.inconclusive("watchdog compile"))]
    per, other = ({}, [])
    if comp.exit != 0:
        per, other = mockgen.attribute_compile_errors(comp, info, [by_name[n] for n in ok], case["placement"])
        if not per and not verdicts:
            return [(case, Verdict.violated("destination package does not compile but no generated file is named in the errors", dict(comp.brief(2000)), tags))]
    for name in sorted(ok):
        i = by_name[name]
        sub = dict(case, only=[name], feature=i["feature"])
        if name in per:
            sig = mockgen.norm_msg(per[name][0])
            src = ""
            try:
                src = open(os.path.join(root, mockgen.out_file(info, i, case["placement"])), errors="replace").read()
            except OSError:
                pass
            verdicts.append((sub, Verdict.violated("generated file for interface %s (feature %s, %s/%s/%s) does not compile: %s" % (
                name, i["feature"], case["template"], case["formatter"], case["placement"], per[name][:3]),
                {"errors": per[name][:6], "iface": gosrc.render_iface(i), "td": case.get("td"), "kf_key": kf_key(case, i, sig), "generated_head": src[:1500]},
                tags + ["feature=" + i["feature"]])))
        else:
            verdicts.append((sub, Verdict.held({"iface": i["name"], "feature": i["feature"], "methods": len(i["body"])}, tags=tags + ["feature=" + i["feature"]])))
    return verdicts


def body(ctx, replay=None):
    core.build_mockery(ctx)
    ctx.rule = ("each evaluation = one interface mocked and compiled in its destination package. Catalogue interfaces carry exactly one hostile feature "
                "(type shapes incl. same-named foreign packages, stdlib-named packages, aliases, generics with every constraint form, unsafe.Pointer, anonymous "
                "structs/interfaces; method shapes incl. all variadic element kinds and embedding; identifiers: predeclared names, every local name the built-in "
                "templates use, import qualifiers, type names, case-colliding pairs, non-ASCII); random interfaces mix features. Each package of 8 interfaces gets "
                "one mockery run (per-interface re-runs on failure) x template x formatter x placement {in-package, in-package _test, same-directory _test "
                "package, separate package, separate package named like an import} x template-data options x go.mod spelling x source package kind. "
                "non-trivial = interface with >= 1 method that reached the compile oracle; distinct = (case, interface)")
    ctx.assumptions = ["the Go toolchain (go test -run ^$ -vet=off -gcflags=-e) is the validity oracle", "method names colliding with the mocks' documented API and types that "
                       "cannot be named from the destination package are not generated (outside the guarantee)"]
    cases = [replay] if replay is not None else gen_cases(ctx)

    def evaluator(c, case):
        res = eval_case(c, case)
        # account every interface separately; return the last one through the normal path
        for sub, v in res[:-1]:
            c.record(sub, v, {"feature": sub.get("feature"), "template": sub.get("template"), "formatter": sub.get("formatter"), "placement": sub.get("placement")})
        sub, v = res[-1]
        sub = dict(sub)
        case.clear()
        case.update(sub)
        return v

    ctx.run_cases(cases, evaluator, stop_after_violations=400,
                  view=lambda c: {"feature": c.get("feature"), "template": c.get("template"), "formatter": c.get("formatter"), "placement": c.get("placement"), "td": c.get("td")})
    return ctx.finish()


if __name__ == "__main__":
    core.main_wrapper("C01", "exploration", body)
