"""C03 — testify-style mocks route arguments, callbacks and return values faithfully.

Plane P3: freshly generated testify mocks (C01 corpus, unroll-variadic true / false / unset) are
linked with a reflection-only driver that exercises every method under ten setup styles
(Return, Run+Return, RunAndReturn, per-result providers, whole-function provider, no
expectation, no return values, Return(nil), unmet expectation, mock.Anything) with generated
argument/result values (nil, zero, empty, populated, typed nil, identity-tagged), plus
histories of expectations with Times(n); every step is logged and findings come back as events.
"""
import json
import random

from . import core, gosrc, mockgen, c01, drvrun
from .core import Verdict

CHUNK = 14


def gen_cases(ctx):
    rng = ctx.rng
    cases = []
    ci = 0
    for inpkg in (True, False):
        g = gosrc.Gen(random.Random(ctx.seed * 31 + inpkg), inpkg_only=inpkg)
        cat = gosrc.catalogue(g)
        order = list(range(len(cat)))
        random.Random(ctx.seed * 7 + inpkg).shuffle(order)
        chunks = [order[k:k + CHUNK] for k in range(0, len(order), CHUNK)]
        if ctx.tier == "quick":
            chunks = chunks[::2] if inpkg else chunks[1::2]
            # parameters named like the template's own locals decide whether a callback sees the call's value or a shadowing local: always all of them
            have = {k for ch in chunks for k in ch}
            loc = [k for k in order if cat[k]["feature"].startswith("ident.template-local") and k not in have]
            if inpkg:
                chunks += [loc[k:k + CHUNK] for k in range(0, len(loc), CHUNK)]
        # every variadic method form under every unroll-variadic setting (how the variadic slice is carried depends on the whole parameter list)
        # (plus the features whose breakage shows only at run time or only for one template: names like promoted mock.Mock methods, self-referential constraints)
        vidx = [k for k in order if cat[k]["feature"].startswith("method.variadic") or cat[k]["feature"].startswith("method.name-like-promoted") or cat[k]["feature"] == "generic.self-ref-constraint"]
        if (inpkg or ctx.tier == "thorough") and vidx:
            for u in (None, True, False):
                for k in range(0, len(vidx), CHUNK):
                    cases.append({"kind": "catalogue", "inpkg": inpkg, "genseed": ctx.seed * 31 + inpkg, "idx": vidx[k:k + CHUNK], "template": "testify", "formatter": "goimports",
                                  "placement": "inpkg-test" if inpkg else "outpkg", "td": {} if u is None else {"unroll-variadic": u}, "gomod": "plain", "srckind": "ordinary",
                                  "drvseed": rng.randrange(1, 1 << 20), "td_level": "root"})
        # all mocks of the package in ONE output file with unroll-variadic alternating true / false / unset per interface (true first):
        # what one mock is rendered with must not stick to the mocks rendered after it
        if vidx:
            for k in range(0, len(vidx), CHUNK):
                cases.append({"kind": "catalogue", "inpkg": inpkg, "genseed": ctx.seed * 31 + inpkg, "idx": vidx[k:k + CHUNK], "template": "testify", "formatter": "goimports",
                              "placement": "inpkg-test" if inpkg else "outpkg", "td": {}, "gomod": "plain", "srckind": "ordinary", "drvseed": rng.randrange(1, 1 << 20),
                              "onefile": True, "mixed_unroll": True})
        # the option set at the top level and set to the OPPOSITE value - explicitly, also when that is the default "false" - on every second interface
        if vidx and (inpkg or ctx.tier == "thorough"):
            for outer in (True, False):
                cases.append({"kind": "catalogue", "inpkg": inpkg, "genseed": ctx.seed * 31 + inpkg, "idx": vidx[:CHUNK], "template": "testify", "formatter": "goimports",
                              "placement": "inpkg-test" if inpkg else "outpkg", "td": {"unroll-variadic": outer}, "gomod": "plain", "srckind": "ordinary",
                              "drvseed": rng.randrange(1, 1 << 20), "td_level": "root", "override_opposite": True})
        for ch in chunks:
            for rep in range(1 if ctx.tier == "quick" else 3):
                u = [None, True, False][ci % 3]
                ci += 1
                td = {} if u is None else {"unroll-variadic": u}
                cases.append({"kind": "catalogue", "inpkg": inpkg, "genseed": ctx.seed * 31 + inpkg, "idx": ch, "template": "testify", "formatter": "goimports",
                              "placement": "inpkg-test" if inpkg else rng.choice(["outpkg", "xtest"]), "td": td, "gomod": "plain", "srckind": "ordinary",
                              "drvseed": rng.randrange(1, 1 << 20), "td_level": ["root", "iface", "recparent"][ci % 3], "golang": [None, "1.21", None, "1.20", None, "1.18"][ci % 6]})
    # replace-type: the effective (replacement) type decides nillability, assertions and zero values of results
    for k in range(4 if ctx.tier == "quick" else 20):
        t1, t2 = REPLACE_TARGETS[k % len(REPLACE_TARGETS)], REPLACE_TARGETS[(k * 3 + 1) % len(REPLACE_TARGETS)]
        u = [None, True, False][k % 3]
        cases.append({"kind": "replace", "inpkg": False, "template": "testify", "formatter": "goimports", "placement": ["outpkg", "inpkg-test"][k % 2], "gomod": "plain",
                      "srckind": "ordinary", "td": {} if u is None else {"unroll-variadic": u}, "drvseed": rng.randrange(1, 1 << 20),
                      "replace": {"T": t1, "E": t2}})
    n = 6 if ctx.tier == "quick" else 60
    for k in range(n):
        u = [None, True, False][(ci + k) % 3]
        inpkg = rng.random() < 0.5
        cases.append({"kind": "random", "inpkg": inpkg, "genseed": rng.randrange(1 << 30), "count": CHUNK, "template": "testify", "formatter": "goimports",
                      "placement": "inpkg-test" if inpkg else "outpkg", "td": {} if u is None else {"unroll-variadic": u}, "gomod": "plain", "srckind": "ordinary",
                      "drvseed": rng.randrange(1, 1 << 20)})
    return cases


REPLACE_TARGETS = ["I", "PT", "MT", "FT", "ST", "CT", "T"]


def replace_case_ifaces(case):
    qa = gosrc.Q["ma"]
    body = ["Snap(k string) (%s.T, error)" % qa, "Tok() %s.E" % qa, "Both(x %s.T, y int) (%s.E, %s.T)" % (qa, qa, qa), "Void(x %s.E)" % qa, "Var(a string, xs ...%s.T) %s.E" % (qa, qa)]
    return [{"name": "RepSvc", "tparams": "", "body": body, "feature": "replace-type.result-nillability", "targs": [], "exported": True, "features": [], "no_iface": True}]


def kf_key(f):
    feats = [x for x in f.get("features") or [] if x.startswith("arg.nil-interface") or x in ("no-unroll", "unroll", "variadic", "variadic-nil-element")]
    return "c03:%s:%s:%s" % (f["style"], f["sig"], "+".join(sorted(set(feats))))


def eval_case(ctx, case):
    if case["kind"] == "replace":
        ifaces = replace_case_ifaces(case)
        ma, mb = gosrc.MOD + "/ext/" + gosrc.FOREIGN["ma"][0], gosrc.MOD + "/ext/" + gosrc.FOREIGN["mb"][0]
        case = dict(case, extra_cfg={"replace-type": {ma: {k: {"pkg-path": mb, "type-name": v} for k, v in case["replace"].items()}}})
    else:
        ifaces = c01.case_ifaces(case)
    if case.get("mixed_unroll"):
        case = dict(case, td_by_name={i["name"]: ({"unroll-variadic": True} if k % 3 == 0 else ({"unroll-variadic": False} if k % 3 == 1 else {})) for k, i in enumerate(ifaces)})
    if case.get("override_opposite"):
        case = dict(case, td_by_name={i["name"]: {"unroll-variadic": not case["td"]["unroll-variadic"]} for k, i in enumerate(ifaces) if k % 2 == 0})
    root, info, usable, note = drvrun.prepare(ctx, case, ifaces, ctx.known)
    if root is None and isinstance(note, dict) and note.get("crash"):
        return [(case, Verdict.violated(note["crash"], note, ["tool-crash-during-generation"]))]
    if root is None:
        return [(case, Verdict.skipped(note) if usable == [] else Verdict.inconclusive(note))]
    if not usable:
        return [(case, Verdict.skipped("no usable mock in this chunk"))]
    inpkg = case["placement"] in mockgen.IN_PACKAGE
    reg, skipped = drvrun.registration(info, usable, case, inpkg)
    drvrun.install_driver(root, info, ["core", "testify"], reg)
    rounds = 3 if ctx.tier == "quick" else 9
    r, findings, summary, races = drvrun.run_tests(root, info, "^TestDrvTestify$", {"DRV_SEED": str(case["drvseed"]), "DRV_ROUNDS": str(rounds)})
    td = case.get("td") or {}
    tags = ["placement=" + case["placement"], "unroll=%s" % ("mixed-per-interface-one-file" if case.get("mixed_unroll") else ("%s-at-root-opposite-on-interfaces" % td.get("unroll-variadic")) if case.get("override_opposite") else td.get("unroll-variadic", "unset"))]
    if r.timed_out:
        return [(case, Verdict.inconclusive("watchdog"))]
    if summary is None:
        cr = drvrun.crash_in_generated(r)
        if cr:
            return [(case, Verdict.violated("the test binary linked with the generated mocks died while the driver ran (%s) with a generated file on the stack (%s)" % (
                cr["crash"], cr["generated_frame"]), dict(cr, **{"template-data": td}), tags))]
        return [(case, Verdict.inconclusive("driver did not run to completion (exit %s): %s" % (r.exit, (r.out + r.err)[-1200:])))]
    cnt = summary["counters"]
    for k, v in cnt.items():
        ctx.count(k, v)
    ctx.count("generic_without_type_arguments_skipped", skipped)
    out = []
    # one verdict per distinct finding class so that known findings and new violations are told apart
    seen = set()
    for f in findings:
        key = kf_key(f)
        if key in seen:
            continue
        seen.add(key)
        sub = dict(case, finding=key)
        out.append((sub, Verdict.violated("%s.%s [%s/%s] %s: %s" % (f["mock"], f["method"], f["style"], f["sig"], f.get("features"), f["what"]),
                                          {"finding": f, "template-data": td, "kf_key": key}, tags)))
    out.append((case, Verdict.held({"mocks": cnt.get("testify.mocks", 0), "scenarios": cnt.get("testify.scenarios", 0), "histories": cnt.get("testify.histories", 0)},
                                   nontrivial=cnt.get("testify.scenarios", 0) > 0, tags=tags)))
    return out


def body(ctx, replay=None):
    core.build_mockery(ctx)
    ctx.known = core.KnownFindings.load()
    ctx.rule = ("each case = a package of up to 14 catalogue/random interfaces mocked with the testify template with unroll-variadic true/false/unset (written at the top "
                "level or per interface), in a separate package, a same-directory _test package or in-package; the driver runs, per method and round, 8-10 setup styles "
                "with generated values and one history of 2-4 expectations with Times(n) on distinct argument tuples; all checks are on recorded events. "
                "non-trivial = at least one scenario ran; distinct = case hash (+ finding class)")
    ctx.assumptions = ["testify's own matching semantics are only relied upon in the unambiguous case (distinct argument tuples, or mock.Anything)",
                       "function-typed values are compared by nil-ness; variadic arguments as element sequences",
                       "arguments whose type contains a func are matched with mock.Anything (testify refuses funcs in expectations)"]
    cases = [replay] if replay is not None else gen_cases(ctx)

    def evaluator(c, case):
        res = eval_case(c, case)
        for sub, v in res[:-1]:
            c.record(sub, v)
        sub, v = res[-1]
        return v

    ctx.run_cases(cases, evaluator, workers=8, stop_after_violations=500)
    return ctx.finish()


if __name__ == "__main__":
    core.main_wrapper("C03", "exploration", body)
