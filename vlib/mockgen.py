"""Shared pipeline for the checks that work on freshly generated mocks (C01, C02, C03, C04, C05, C13, C14):
generated source package -> (toolchain pre-check) -> real mockery run -> per-interface attribution."""
import json
import os
import random
import re

from . import core, gosrc

MOD = gosrc.MOD

PLACEMENTS = ["inpkg", "inpkg-test", "xtest", "outpkg", "outpkg-collide"]
IN_PACKAGE = {"inpkg", "inpkg-test"}

GOMOD_SPELLINGS = {
    "plain": "module example.com/m\n", "tab": "module\texample.com/m\n", "quoted": "module \"example.com/m\"\n",
    "comment": "module example.com/m // trailing comment\n", "lead": "// heading comment\n\nmodule example.com/m\n", "crlf": "module example.com/m\r\n",
    "block": "module (\n\texample.com/m\n)\n",
}
GOMOD_REST = ("\ngo 1.23\n\nrequire (\n\tgithub.com/anishathalye/porcupine v1.3.0\n\tgithub.com/stretchr/testify v1.10.0\n)\n\nrequire (\n\tgithub.com/davecgh/go-spew v1.1.2-0.20180830191138-d8f796af33cc // indirect\n"
              "\tgithub.com/pmezard/go-difflib v1.0.1-0.20181226105442-5d4384ee4fb2 // indirect\n\tgithub.com/stretchr/objx v0.5.2 // indirect\n"
              "\tgopkg.in/yaml.v3 v3.0.1 // indirect\n)\n")


def src_layout(kind):
    """(directory, package name)"""
    return {"ordinary": ("src", "src"), "main": ("cmd/tool", "main"), "name-ne-dir": ("src-dir", "srcpkg"), "modroot": (".", "src")}[kind]


def build_module(ctx, case, ifaces, template=None, extra_cfg=None, extra_files=None):
    """Write the scratch module for `case`; returns (root, info)."""
    sdir, spkg = src_layout(case.get("srckind", "ordinary"))
    files = gosrc.support_files()
    extra = "func main() {}\n" if spkg == "main" else ""
    files[os.path.normpath(sdir + "/ifaces.go")] = gosrc.render_package(spkg, ifaces, extra)
    pl = case["placement"]
    cfg = {"template": template or case["template"], "formatter": case["formatter"], "filename": "mock_{{.InterfaceName}}.go"}
    if pl == "inpkg":
        outdir = sdir
        outpkg = spkg
    elif pl == "inpkg-test":
        cfg["filename"] = "mock_{{.InterfaceName}}_test.go"
        outdir = sdir
        outpkg = spkg
    elif pl == "xtest":
        cfg["filename"] = "mock_{{.InterfaceName}}_test.go"
        cfg["pkgname"] = spkg + "_test"
        outdir = sdir
        outpkg = spkg + "_test"
    elif pl == "outpkg":
        cfg["dir"] = "mocks/out"
        cfg["pkgname"] = "mocks"
        outdir = "mocks/out"
        outpkg = "mocks"
    else:
        cfg["dir"] = "mocks/model"
        cfg["pkgname"] = "model"
        outdir = "mocks/model"
        outpkg = "model"
    td = dict(case.get("td") or {})
    if td.get("boilerplate-file"):
        files["hdr/boiler.txt"] = "// Copyright Example Corp.\n// All rights reserved.\n"
        td["boilerplate-file"] = "hdr/boiler.txt"
    per_iface = None
    recparent_td = None
    if td:
        if case.get("td_level") == "iface":   # the same options written on every interface instead of at the top level
            per_iface = {"config": {"template-data": td}}
        elif case.get("td_level") == "recparent" and sdir != ".":
            # written in the config of a recursive package above the (explicitly listed) source package: reaches its listed interfaces too
            recparent_td = td
        else:
            cfg["template-data"] = td
    if extra_cfg:
        cfg.update(extra_cfg)
    srcpath = MOD if sdir == "." else MOD + "/" + sdir
    if case.get("dir_spelling") and pl in IN_PACKAGE:
        # the source package's own directory written as a relative path ("." for the module root) instead of the default {{.InterfaceDir}}
        cfg["dir"] = sdir if case["dir_spelling"] == "relative" else "./" + sdir + "/"
    tdn = case.get("td_by_name") or {}
    cfg["packages"] = {srcpath: {"interfaces": {i["name"]: ({"config": {"template-data": tdn[i["name"]]}} if tdn.get(i["name"]) else per_iface) for i in ifaces}}}
    if recparent_td is not None:
        cfg["packages"][MOD] = {"config": {"recursive": True, "template-data": recparent_td}}
    if case.get("td_pkg_cfg"):     # arbitrary settings at package level
        cfg["packages"][srcpath].setdefault("config", {}).update(case["td_pkg_cfg"])
    if case.get("iface_cfg"):      # arbitrary settings on every interface
        for nm, ent in list(cfg["packages"][srcpath]["interfaces"].items()):
            ent = dict(ent or {})
            ent["config"] = dict(ent.get("config") or {}, **case["iface_cfg"])
            cfg["packages"][srcpath]["interfaces"][nm] = ent
    if case.get("td_pkg"):
        cfg["packages"][srcpath]["config"] = {"template-data": dict(case["td_pkg"])}
    if case.get("onefile"):
        cfg["filename"] = "mock_all_test.go" if pl in ("inpkg-test", "xtest") else "mock_all.go"
    if case.get("stale_outputs"):
        # the tree an older configuration left behind: every designated output exists already and is much longer than what will be written now
        cfg["force-file-write"] = True
        stale = "// Code generated by mockery; DO NOT EDIT.\n\npackage %s\n\n" % outpkg + "".join("// line %04d of an older, longer generation of this file\n" % k for k in range(6000))
        for i in ifaces:
            files[out_file({"outdir": outdir, "onefile": bool(case.get("onefile"))}, i, pl)] = stale
    files[".mockery.yml"] = json.dumps(cfg, ensure_ascii=False, indent=1)
    if extra_files:
        files.update(extra_files)
    gomod = GOMOD_SPELLINGS[case.get("gomod", "plain")] + GOMOD_REST.replace("\n", "\r\n" if case.get("gomod") == "crlf" else "\n")
    if case.get("golang"):
        # the language version of the module the mocks are compiled in (libraries keep an old `go` directive while a current mockery generates their mocks)
        gomod = gomod.replace("go 1.23", "go " + case["golang"], 1)
    root = core.scratch_module(ctx, files, gomod=gomod)
    return root, {"srcdir": sdir, "srcpkg": spkg, "srcpath": srcpath, "outdir": outdir, "outpkg": outpkg, "cfg": cfg, "onefile": bool(case.get("onefile")),
                  "tags": (td.get("mock-build-tags") or None)}


def out_file(info, iface, placement):
    suffix = "_test.go" if placement in ("inpkg-test", "xtest") else ".go"
    if info.get("onefile"):
        return os.path.join(info["outdir"], "mock_all" + suffix)
    return os.path.join(info["outdir"], "mock_%s%s" % (iface["name"], suffix))


def precheck(root):
    """the generated module must compile before mockery sees it (otherwise: generator bug => inconclusive)"""
    r = core.run(["go", "build", "-trimpath", "-gcflags=-e", "./..."], cwd=root, env=core.scratch_env(), timeout=900)
    return r


def run_generation(ctx, root, info, case, ifaces):
    """Run mockery for the whole package; on failure re-run per interface to attribute.
    Returns (generated: set of iface names whose file was produced, failures: {iface name: Result})"""
    cwd, env_extra = root, None
    if case.get("via_symlink"):
        # the module is entered through a symbolic link (~/src -> /data/src): the shell's logical $PWD, which `go list` honours, is the link
        cwd = root.rstrip("/") + "-link"
        if not os.path.islink(cwd):
            os.symlink(root, cwd)
        env_extra = {"PWD": cwd}
    r = core.run_mockery(ctx, cwd, [], env_extra=env_extra, timeout=600, cpu_limit=300)
    if r.exit == 0 and not r.panicked:
        return set(i["name"] for i in ifaces), {}, r
    # attribute: each interface alone. Every generated file is taken out of the tree before the next single run: a mock that was written
    # but does not compile (C01's own findings) sits in the source package for in-package placements and would make the loader reject the
    # package for the innocent interfaces that follow. The files are put back for the compile step.
    failures = {}
    ok = set()
    cfg = info["cfg"]
    stash = os.path.join(root, ".stash-generated")
    os.makedirs(stash, exist_ok=True)
    paths = {i["name"]: os.path.join(root, out_file(info, i, case["placement"])) for i in ifaces}
    for p in set(paths.values()):
        if os.path.exists(p):
            os.unlink(p)
    for k, i in enumerate(ifaces):
        c2 = dict(cfg)
        c2["force-file-write"] = True
        ent = (cfg["packages"][info["srcpath"]].get("interfaces") or {}).get(i["name"])
        c2["packages"] = {info["srcpath"]: dict({kk: vv for kk, vv in cfg["packages"][info["srcpath"]].items() if kk != "interfaces"}, interfaces={i["name"]: ent})}
        with open(os.path.join(root, ".mockery.yml"), "w") as f:
            f.write(json.dumps(c2, ensure_ascii=False))
        p = paths[i["name"]]
        ri = core.run_mockery(ctx, cwd, [], env_extra=env_extra, timeout=600, cpu_limit=300)
        if ri.exit == 0 and not ri.panicked:
            ok.add(i["name"])
            if os.path.exists(p) and not info.get("onefile"):
                os.replace(p, os.path.join(stash, "%d.go" % k))
        else:
            failures[i["name"]] = ri
            if os.path.exists(p):
                os.unlink(p)
    for k, i in enumerate(ifaces):
        sp = os.path.join(stash, "%d.go" % k)
        if os.path.exists(sp):
            os.makedirs(os.path.dirname(paths[i["name"]]), exist_ok=True)
            os.replace(sp, paths[i["name"]])
    try:
        os.rmdir(stash)
    except OSError:
        pass
    return ok, failures, r


ERR_RE = re.compile(r"^(?:vet: )?(?:\./)?([^\s:]+\.go):(\d+):(\d+): (.*)$", re.M)


def compile_all(root, info, extra_pkgs=()):
    r = core.run(["go", "test", "-trimpath", "-count=1", "-run", "^$", "-vet=off", "-gcflags=-e"] + (["-tags", tags_arg(info)] if info.get("tags") else []) + ["./..."],
                 cwd=root, env=core.scratch_env(), timeout=1200)
    return r


def tags_arg(info):
    # a tag set satisfying the single-tag expressions used by the generators ("mocktag")
    return "mocktag"


def attribute_compile_errors(r, info, ifaces, placement):
    """map compile errors to interfaces by generated file name; returns ({iface: [msgs]}, unattributed [msgs])"""
    by_file = {}
    for i in ifaces:
        by_file[os.path.basename(out_file(info, i, placement))] = i["name"]
    per = {}
    other = []
    text = r.out + "\n" + r.err
    for m in ERR_RE.finditer(text):
        fn, msg = os.path.basename(m.group(1)), m.group(4)
        if fn in by_file:
            per.setdefault(by_file[fn], []).append(msg)
        else:
            other.append("%s: %s" % (m.group(1), msg))
    return per, other


def norm_msg(msg):
    """stable signature of a diagnostic: identifiers kept, numbers and positions dropped"""
    msg = re.sub(r"\s+", " ", msg.strip())
    msg = re.sub(r"\b\d+\b", "N", msg)
    msg = re.sub(r"\(.*?\.go:N:N\)", "", msg)
    msg = re.sub(r"[^\x20-\x7e]+", "?", msg)
    return msg[:90].strip().replace(" ", "_")
