"""C19 — `mockery migrate` carries every supported v2 setting to its v3 place unchanged.

Plane P1. The reference model is applied to the *resolved* v2 tree (the v2 file as read by
yaml.v3, so anchors/aliases/merge keys are already expanded) and compared level by level with
the v3 file as read by yaml.v3; the v3 file is also given to mockery's strict loader.
"""
import hashlib
import json
import os
import subprocess

from . import core
from .core import Verdict

# v2 key -> (v3 key, inside template-data?)
MAPPED = {
    "all": ("all", False), "dir": ("dir", False), "mockname": ("structname", False), "outpkg": ("pkgname", False),
    "include-regex": ("include-interface-regex", False), "exclude-regex": ("exclude-interface-regex", False),
    "exclude": ("exclude-subpkg-regex", False), "recursive": ("recursive", False), "log-level": ("log-level", False),
    "config": ("config", False), "_anchors": ("_anchors", False),
    "boilerplate-file": ("boilerplate-file", True), "mock-build-tags": ("mock-build-tags", True),
    "unroll-variadic": ("unroll-variadic", True),
}
# carried by the tool although not in the property's list: tolerated (never required), value must stem from v2
TOLERATED_TD = {"with-expecter": "with-expecter"}

V2_TYPES = {
    "all": "bool", "_anchors": "map", "boilerplate-file": "str", "tags": "str", "case": "str", "config": "str", "cpuprofile": "str",
    "dir": "str", "disable-config-search": "bool", "disable-deprecation-warnings": "bool", "disabled-deprecation-warnings": "strs",
    "disable-func-mocks": "bool", "disable-version-string": "bool", "dry-run": "bool", "exclude": "strs", "exclude-regex": "str",
    "exported": "bool", "fail-on-missing": "bool", "filename": "str", "inpackage": "bool", "inpackage-suffix": "bool",
    "include-auto-generated": "bool", "include-regex": "str", "issue-845-fix": "bool", "keeptree": "bool", "log-level": "str",
    "mock-build-tags": "str", "mockname": "str", "name": "str", "note": "str", "outpkg": "str", "output": "str", "packageprefix": "str",
    "print": "bool", "profile": "str", "quiet": "bool", "recursive": "bool", "replace-type": "strs", "resolve-type-alias": "bool",
    "srcpkg": "str", "structname": "str", "testonly": "bool", "unroll-variadic": "bool", "version": "bool", "with-expecter": "bool",
}

HOSTILE = [": colon", " #hash", "- dash", "*star", "&amp", "!bang", "|pipe", ">gt", "'q", '"dq', "%pc", "@at", "`bt", "{b}", "[l]",
           "null", "true", "123", "1.5", "~", "ünï", " lead", "trail ", "a: b", "{{.InterfaceName}}Mock", "x\ty", "yes", "<<", "=", "0x1f", "multi\nline"]


# v2 template variables inside values (some of them deprecated in v3: migrate warns, the value is carried as written), several per value
V2VAR_SHAPES = ["{{.InterfaceName}}/mock_{{.InterfaceNameSnake}}_%s.go", "%s{{.InterfaceNameCamel}}{{.InterfaceNameLowerCamel}}", "{{.InterfaceNameLower}}-%s-{{.InterfaceNameLower}}-{{.InterfaceName}}",
                "{{.PackageName}}_%s_{{.PackagePath}}{{.MockName}}", "{{.InterfaceNameSnake}}%s"]
PATH_SHAPES = ["{{.InterfaceDir}}/../%s", "{{.InterfaceDir}}/%s/", "./{{.InterfaceDirRelative}}//%s", "%s/../x/./y", "./%s", "%s//sub/", "/abs/%s/..", "../%s"]


_OTHER_FS = {}


def other_fs_tmpdir(ctx, root):
    """a writable directory on a file system other than the one holding `root` (None if the machine has none)"""
    if "dir" not in _OTHER_FS:
        _OTHER_FS["dir"] = None
        try:
            dev = os.stat(root).st_dev
            for cand in ("/dev/shm", "/run/shm", "/run", "/var/tmp", "/tmp", os.path.expanduser("~")):
                if os.path.isdir(cand) and os.access(cand, os.W_OK) and os.stat(cand).st_dev != dev:
                    import tempfile, atexit, shutil
                    d = tempfile.mkdtemp(prefix="vp.c19tmp.", dir=cand)
                    atexit.register(shutil.rmtree, d, True)
                    _OTHER_FS["dir"] = d
                    break
        except OSError:
            pass
    if _OTHER_FS["dir"]:
        ctx.count("runs_with_tmpdir_on_another_file_system")
    else:
        ctx.count("no_other_file_system_available")
    return _OTHER_FS["dir"]


class Gen:
    def __init__(self, rng):
        self.rng = rng
        self.n = 0

    def marker(self, key):
        self.n += 1
        s = "m%d-%s" % (self.n, key)
        if self.rng.random() < 0.2:
            s += self.rng.choice(HOSTILE)
        return s

    def value(self, key, top):
        t = V2_TYPES[key]
        r = self.rng
        if key == "log-level":
            return r.choice(["debug", "info", "warn", "error"])
        if key == "recursive":
            return False if not self.allow_recursive else r.random() < 0.5
        if t == "bool":
            return r.random() < 0.5
        if t == "str":
            if r.random() < 0.1:
                return r.choice(V2VAR_SHAPES) % self.marker(key)
            if r.random() < 0.15:
                # path-shaped values are carried as written: `..` segments after a template variable, trailing / doubled separators, a leading ./
                return r.choice(PATH_SHAPES) % self.marker(key)
            return self.marker(key)
        if t == "strs":
            # list entries are carried verbatim: trailing separators, a bare "/", surrounding blanks and empty entries included
            return [self.marker(key) + r.choice(["", "", "", "/", "//", "/.", " "]) for _ in range(r.randint(0, 3))] + (["/"] if r.random() < 0.05 else [])
        if t == "map":
            return {self.marker("ak"): r.choice([self.marker("av"), 7, True, [1, "x"], {"nested": {"deep": self.marker("d")}}])
                    for _ in range(r.randint(0, 3))}

    def config(self, top=False, dense=None):
        r = self.rng
        dense = r.random() if dense is None else dense
        c = {}
        for k in V2_TYPES:
            p = dense if k in MAPPED else dense * 0.35
            if k == "_anchors" and not top:
                p *= 0.3
            if r.random() < p:
                c[k] = self.value(k, top)
        return c

    def name(self, kind):
        r = self.rng
        if self.real_pkgs and kind == "pkg":
            return None
        base = "%s%d" % ("example.com/x/p" if kind == "pkg" else "Iface", self.n)
        self.n += 1
        if r.random() < 0.25:
            base += r.choice(HOSTILE)
        return base

    def tree(self):
        r = self.rng
        self.allow_recursive = r.random() < 0.4
        self.real_pkgs = self.allow_recursive
        t = self.config(top=True, dense=r.choice([0.1, 0.5, 0.9]))
        if r.random() < 0.05:
            return t  # no packages key
        pk = {}
        names = ["example.com/m/p1", "example.com/m/p2", "example.com/m/p1/sub"] if self.real_pkgs else None
        for i in range(r.randint(0, 4)):
            nm = names[i % 3] if names else self.name("pkg")
            if nm in pk:
                continue
            x = r.random()
            if x < 0.12:
                pk[nm] = None
                continue
            p = {}
            if r.random() < 0.7:
                p["config"] = self.config(dense=r.choice([0.1, 0.5, 0.9])) if r.random() < 0.9 else None
            if r.random() < 0.7:
                ifs = {}
                for _ in range(r.randint(0, 3)):
                    inm = self.name("iface")
                    y = r.random()
                    if y < 0.15:
                        ifs[inm] = None
                        continue
                    ic = {}
                    if r.random() < 0.7:
                        ic["config"] = self.config(dense=r.choice([0.1, 0.5, 0.9]))
                    if r.random() < 0.5:
                        ic["configs"] = [self.config(dense=r.choice([0.1, 0.5, 0.9])) for _ in range(r.randint(0, 3))]
                    ifs[inm] = ic
                p["interfaces"] = ifs if r.random() < 0.95 else None
            pk[nm] = p
        t["packages"] = pk if r.random() < 0.95 else None
        return t


ANCHOR_YAMLS = [
    """_anchors:
  common: &common
    all: true
    dir: "shared/{{.InterfaceName}}"
    mockname: "Shared{{.InterfaceName}}"
  tags: &tags "integration && !race"
with-expecter: true
mock-build-tags: *tags
packages:
  example.com/x/alpha:
    config:
      <<: *common
      outpkg: alphamocks
    interfaces:
      Reader:
        config:
          <<: *common
          unroll-variadic: true
        configs:
          - <<: *common
            mockname: ReaderA
          - mockname: ReaderB
            boilerplate-file: *tags
  example.com/x/beta:
    config: *common
""",
    """_anchors:
  lvl: &lvl debug
  ex: &ex ["vendor", "third_party"]
  deep:
    nested: &n {a: 1, b: [x, y]}
log-level: *lvl
exclude: *ex
packages:
  example.com/x/p:
    config:
      exclude: *ex
      _anchors:
        copy: *n
    interfaces:
      I: ~
      J:
        configs:
          - {dir: d1, mockname: J1}
          - {dir: d2, mockname: J2, include-regex: ".*", exclude-regex: "^x"}
""",
]


def y2j_file(path):
    p = subprocess.run([core.helper_bin("y2j"), path], capture_output=True, text=True)
    if p.returncode != 0:
        return None, p.stderr
    return json.loads(p.stdout), ""


def gen_cases(ctx):
    cases = []
    for i, y in enumerate(ANCHOR_YAMLS):
        cases.append({"i": -1 - i, "yaml": y})
    # pairwise-ish: each mapped key alone at each level, and all together at each level
    g = Gen(ctx.rng)
    for lvl in ("top", "pkg", "iface", "configs"):
        for keys in [[k] for k in MAPPED] + [list(MAPPED)]:
            g.allow_recursive = False
            g.real_pkgs = False
            c = {k: g.value(k, lvl == "top") for k in keys}
            t = {"packages": {"example.com/x/q": {"config": {}, "interfaces": {"I": {"config": {}, "configs": [{}, {}]}}}}}
            if lvl == "top":
                t.update(c)
            elif lvl == "pkg":
                t["packages"]["example.com/x/q"]["config"] = c
            elif lvl == "iface":
                t["packages"]["example.com/x/q"]["interfaces"]["I"]["config"] = c
            else:
                t["packages"]["example.com/x/q"]["interfaces"]["I"]["configs"][1] = c
            cases.append({"i": len(cases), "tree": t})
    # exclude entries ending in a separator (v2 users wrote directory prefixes), at every level
    for lvl in ("top", "pkg", "iface", "configs"):
        c = {"exclude": ["example.com/x/q/gen/", "vendor/", "/", "third_party//", "plain"]}
        t = {"packages": {"example.com/x/q": {"config": {}, "interfaces": {"I": {"config": {}, "configs": [{}, {}]}}}}}
        if lvl == "top":
            t.update(c)
        elif lvl == "pkg":
            t["packages"]["example.com/x/q"]["config"] = c
        elif lvl == "iface":
            t["packages"]["example.com/x/q"]["interfaces"]["I"]["config"] = c
        else:
            t["packages"]["example.com/x/q"]["interfaces"]["I"]["configs"][1] = c
        cases.append({"i": len(cases), "tree": t})
    # explicit empty strings for every string-valued mapped key, at every level
    strkeys = [k for k in MAPPED if V2_TYPES.get(k) == "str"]
    for lvl in ("top", "pkg", "iface", "configs"):
        c = {k: "" for k in strkeys}
        t = {"dir": "inherited-dir", "mockname": "Inherited{{.InterfaceName}}", "packages": {"example.com/x/q": {"config": {"outpkg": "inheritedpkg"}, "interfaces": {"I": {"config": {}, "configs": [{}, {}]}}}}}
        if lvl == "top":
            t.update(c)
        elif lvl == "pkg":
            t["packages"]["example.com/x/q"]["config"] = c
        elif lvl == "iface":
            t["packages"]["example.com/x/q"]["interfaces"]["I"]["config"] = c
        else:
            t["packages"]["example.com/x/q"]["interfaces"]["I"]["configs"][1] = c
        cases.append({"i": len(cases), "tree": t})
    # values holding several v2 template variables, at every level (fixed witnesses)
    for j, lvl in enumerate(("top", "pkg", "iface", "configs")):
        c = {k: V2VAR_SHAPES[(j + n2) % len(V2VAR_SHAPES)] % ("v%d-%s" % (j, k)) for n2, k in enumerate(k for k in strkeys if k not in ("log-level", "config"))}
        t = {"packages": {"example.com/x/q": {"config": {}, "interfaces": {"I": {"config": {}, "configs": [{}, {}]}}}}}
        if lvl == "top":
            t.update(c)
        elif lvl == "pkg":
            t["packages"]["example.com/x/q"]["config"] = c
        elif lvl == "iface":
            t["packages"]["example.com/x/q"]["interfaces"]["I"]["config"] = c
        else:
            t["packages"]["example.com/x/q"]["interfaces"]["I"]["configs"][1] = c
        cases.append({"i": len(cases), "tree": t})
    # path-shaped values for every string-valued mapped key, at every level (fixed witnesses)
    for j, lvl in enumerate(("top", "pkg", "iface", "configs")):
        c = {k: PATH_SHAPES[(j + n2) % len(PATH_SHAPES)] % ("w%d-%s" % (j, k)) for n2, k in enumerate(k for k in strkeys if k not in ("log-level", "config"))}
        t = {"packages": {"example.com/x/q": {"config": {}, "interfaces": {"I": {"config": {}, "configs": [{}, {}]}}}}}
        if lvl == "top":
            t.update(c)
        elif lvl == "pkg":
            t["packages"]["example.com/x/q"]["config"] = c
        elif lvl == "iface":
            t["packages"]["example.com/x/q"]["interfaces"]["I"]["config"] = c
        else:
            t["packages"]["example.com/x/q"]["interfaces"]["I"]["configs"][1] = c
        cases.append({"i": len(cases), "tree": t})
    n = 60 if ctx.tier == "quick" else 2500
    for _ in range(n):
        cases.append({"i": len(cases), "tree": Gen(ctx.rng).tree() if True else None})
    # _anchors at several levels sharing keys whose values have different shapes (mapping above, scalar/list/null below and vice versa)
    shapes = [{"k": {"deep": {"x": 1}}}, {"k": "scalar"}, {"k": [1, 2]}, {"k": None}, {"k": {"deep": "s"}}, {"k": {}}]
    for a in shapes:
        for b in shapes:
            if a is b:
                continue
            t = {"_anchors": a, "packages": {"example.com/x/q": {"config": {"_anchors": b, "all": True},
                                                                 "interfaces": {"I": {"config": {"_anchors": a}, "configs": [{"_anchors": b}]}}}}}
            cases.append({"i": len(cases), "tree": t})
    # the same trees written with anchored scalars and aliases in value and list-item positions (flow-style YAML)
    extra = []
    for c in list(cases):
        if "tree" in c and ctx.rng.random() < 0.35:
            y = aliasify(c["tree"], ctx.rng)
            if y is not None:
                extra.append({"i": len(cases) + len(extra), "yaml": y, "aliased": True})
    cases += extra
    for c in cases:
        c["stale_outfile"] = ctx.rng.random() < 0.3
        if ctx.rng.random() < 0.25:
            c["search"] = ctx.rng.choice(["cwd", "sub"])
            c["v2name"] = ctx.rng.choice([".mockery.yml", ".mockery.yaml"])
            c["twice"] = ctx.rng.random() < 0.6
    return cases


def aliasify(tree, rng):
    """JSON is flow-style YAML: emit the tree as JSON with up to 4 string scalars (list items and map values) replaced by aliases of
    anchors defined under the top-level _anchors key. Returns None when the tree has no suitable scalar."""
    if not isinstance(tree, dict) or ("_anchors" in tree and not isinstance(tree["_anchors"], dict)):
        return None
    cands = []

    def walk(node, path):
        if isinstance(node, dict):
            for k, v in node.items():
                if k != "_anchors":
                    walk(v, path + (k,))
        elif isinstance(node, list):
            for k, v in enumerate(node):
                walk(v, path + (k,))
        elif isinstance(node, str) and path:
            cands.append(path)
    walk(tree, ())
    if not cands:
        return None
    chosen = {}
    for pth in rng.sample(cands, min(len(cands), rng.randint(1, 4))):
        chosen[pth] = "al%d_dir" % len(chosen)

    def get(pth):
        n = tree
        for k in pth:
            n = n[k]
        return n

    def emit(node, path):
        if path in chosen:
            return "*" + chosen[path]
        if isinstance(node, dict):
            items = []
            if not path:
                anchors = dict(node.get("_anchors") or {})
                a = ", ".join(["%s: &%s %s" % (json.dumps(nm), nm, json.dumps(get(pth), ensure_ascii=False)) for pth, nm in chosen.items()] +
                              ["%s: %s" % (json.dumps(k, ensure_ascii=False), emit(v, ("_anchors", k))) for k, v in anchors.items()])
                items.append('"_anchors": {%s}' % a)
            for k, v in node.items():
                if not path and k == "_anchors":
                    continue
                items.append("%s: %s" % (json.dumps(k, ensure_ascii=False), emit(v, path + (k,))))
            return "{" + ", ".join(items) + "}"
        if isinstance(node, list):
            return "[" + ", ".join(emit(v, path + (k,)) for k, v in enumerate(node)) + "]"
        return json.dumps(node, ensure_ascii=False)
    return emit(tree, ()) + "\n"


def is_empty(v):
    return v is None or v == {} or v == [] or v == ""


def expected_level(v2c):
    """v2 config dict (resolved) -> (expected v3 plain keys, expected template-data keys, tolerated td)"""
    plain, td, tol = {}, {}, {}
    for k, v in (v2c or {}).items():
        if k in MAPPED and v is not None:
            k3, in_td = MAPPED[k]
            (td if in_td else plain)[k3] = v
        if k in TOLERATED_TD and v is not None:
            tol[TOLERATED_TD[k]] = v
    return plain, td, tol


def compare_level(where, v2c, v3c, errs, allow_template=True):
    plain, td, tol = expected_level(v2c if isinstance(v2c, dict) else {})
    v3c = v3c if isinstance(v3c, dict) else {}
    for k, v in plain.items():
        if v == "":
            # an explicit empty string is a setting (it resets what the level would otherwise inherit): it must arrive as one
            if k not in v3c or v3c[k] != "":
                errs.append("%s: v2 sets the v3 key %r to the empty string, v3 file has %s" % (where, k, repr(v3c[k]) if k in v3c else "no such key"))
            continue
        if is_empty(v) and is_empty(v3c.get(k)):
            continue
        if v3c.get(k) != v:
            errs.append("%s: v2 value for v3 key %r is %r, v3 file has %r" % (where, k, v, v3c.get(k)))
    a_td = v3c.get("template-data") or {}
    for k, v in td.items():
        if not isinstance(a_td, dict) or a_td.get(k) != v or k not in a_td:
            errs.append("%s: template-data.%s should be %r, v3 file has %r" % (where, k, v, a_td.get(k) if isinstance(a_td, dict) else a_td))
    for k, v in v3c.items():
        if k in ("packages", "interfaces", "configs"):
            continue
        if is_empty(v):
            continue
        if k == "template":
            continue
        if k == "template-data":
            if isinstance(v, dict):
                for kk, vv in v.items():
                    if kk in td and td[kk] == vv:
                        continue
                    if kk in tol and tol[kk] == vv:
                        continue
                    errs.append("%s: template-data.%s=%r appears in v3 but the v2 file has no such value at this level" % (where, kk, vv))
            continue
        if k not in plain:
            errs.append("%s: v3 key %s=%r has no v2 source at this level" % (where, k, v))


def compare(v2, v3):
    errs = []
    v2 = v2 if isinstance(v2, dict) else {}
    v3 = v3 if isinstance(v3, dict) else {}
    compare_level("top", {k: v for k, v in v2.items() if k != "packages"}, {k: v for k, v in v3.items() if k != "packages"}, errs)
    p2 = v2.get("packages") or {}
    p3 = v3.get("packages") or {}
    if set(p2) != set(p3):
        errs.append("package names differ: v2 %r, v3 %r" % (sorted(p2), sorted(p3)))
    for pn in p2:
        if pn not in p3:
            continue
        a, b = p2[pn] or {}, p3[pn] or {}
        compare_level("package %r" % pn, a.get("config"), {k: v for k, v in (b.get("config") or {}).items()}, errs)
        extra = [k for k in b if k not in ("config", "interfaces") and not is_empty(b[k])]
        if extra:
            errs.append("package %r has unexpected keys %s" % (pn, extra))
        i2, i3 = a.get("interfaces") or {}, b.get("interfaces") or {}
        if set(i2) != set(i3):
            errs.append("interface names of %r differ: v2 %r, v3 %r" % (pn, sorted(i2), sorted(i3)))
        for iname in i2:
            if iname not in i3:
                continue
            x, y = i2[iname] or {}, i3[iname] or {}
            compare_level("interface %r.%r config" % (pn, iname), x.get("config"), y.get("config"), errs)
            c2, c3 = x.get("configs") or [], y.get("configs") or []
            if len(c2) != len(c3):
                errs.append("interface %r.%r: %d configs entries in v2, %d in v3" % (pn, iname, len(c2), len(c3)))
            for j, (u, w) in enumerate(zip(c2, c3)):
                compare_level("interface %r.%r configs[%d]" % (pn, iname, j), u, w, errs)
    return errs


def eval_case(ctx, case):
    files = {"p1/a.go": "package p1\n\ntype A interface{ M() }\n", "p2/b.go": "package p2\n\ntype B interface{ M() }\n",
             "p1/sub/c.go": "package sub\n\ntype C interface{ M() }\n"}
    root = core.scratch_module(ctx, files)
    search = case.get("search")   # None: --config/--outfile given; "cwd"/"sub": the v2 file is found by upward search, the v3 file goes to the default place
    v2path = os.path.join(root, case.get("v2name", ".mockery.yml") if search else "v2.yml")
    if "yaml" in case:
        text = case["yaml"]
    else:
        text = json.dumps(case["tree"], ensure_ascii=False, indent=1)
    with open(v2path, "w") as f:
        f.write(text)
    v2, err = y2j_file(v2path)
    if v2 is None:
        return Verdict.inconclusive("generator produced YAML the reference reader rejects: %s" % err)
    h0 = hashlib.sha256(open(v2path, "rb").read()).hexdigest()
    cwd = root
    if search:
        cwd = root if search == "cwd" else os.path.join(root, "p1", "sub")
        out = os.path.join(cwd, ".mockery_v3.yml")
    else:
        out = os.path.join(root, "out", "v3.yml")
        os.makedirs(os.path.dirname(out))
    out_rel = os.path.relpath(out, root)
    if case.get("stale_outfile"):
        # an earlier, longer migration result at the same --outfile path: nothing of it may survive
        with open(out, "w") as f:
            f.write("all: true\ndir: stale-dir\nstructname: StaleName\npackages:\n" + "".join("  example.com/stale/p%d:\n    config:\n      all: true\n" % k for k in range(200)))
    feeder = None
    cfg_arg = v2path
    if case.get("via_fifo") and not search:
        # the v2 configuration reaches the tool through a named pipe (`--config <(gen)`, /dev/stdin): its size is unknown before it is read
        cfg_arg = os.path.join(root, "v2pipe.yml")
        feeder = core.FifoFeeder(cfg_arg, text)
    before = core.snapshot(root)
    margs = ["migrate"] if search else ["migrate", "--config", cfg_arg, "--outfile", out]
    menv = None
    if case["i"] % 3 == 0:
        # the system temp directory lies on another file system than the project (tmpfs /tmp next to a project on disk, bind mounts in containers)
        other = other_fs_tmpdir(ctx, root)
        if other:
            menv = {"TMPDIR": other}
    try:
        r = core.run_mockery(ctx, cwd, margs, env_extra=menv, timeout=600, cpu_limit=60, block_window=20 if feeder else None)
    finally:
        if feeder:
            feeder.close()
    if feeder and r.blocked:
        return Verdict.violated("the v2 file is a named pipe with a writer waiting: migrate neither failed nor finished (blocked)", r.brief(), ["config-via-fifo"])
    if r.timed_out:
        return Verdict.inconclusive("watchdog")
    if search and case.get("twice") and r.exit == 0:
        # the project is migrated again later (the v3 file of the first run is now lying next to / above the v2 file)
        first = open(out, "rb").read() if os.path.exists(out) else None
        r = core.run_mockery(ctx, cwd, margs, env_extra=menv, timeout=600, cpu_limit=60)
        if r.timed_out:
            return Verdict.inconclusive("watchdog")
        if r.exit != 0:
            return Verdict.violated("a second `mockery migrate` of the same decodable v2 file failed (exit %s)" % r.exit, dict(r.brief(), first_exit=0), ["search=" + search, "twice"])
        if first is not None and open(out, "rb").read() != first:
            return Verdict.violated("a second `mockery migrate` of the same v2 file wrote a different v3 file", {"exit": r.exit}, ["search=" + search, "twice"])
    obs = {"exit": r.exit}
    tags = []
    levels = set()
    if isinstance(v2, dict):
        if any(k in MAPPED for k in v2):
            levels.add("top")
        for pn, p in (v2.get("packages") or {}).items():
            p = p or {}
            if p.get("config"):
                levels.add("pkg")
            for iname, ic in (p.get("interfaces") or {}).items():
                ic = ic or {}
                if ic.get("config"):
                    levels.add("iface")
                if ic.get("configs"):
                    levels.add("configs")
    tags = ["level=" + l for l in sorted(levels)] + (["search=" + search] + (["twice"] if case.get("twice") else []) if search else []) + (["config-via-fifo"] if feeder else [])
    if r.panicked:
        return Verdict.violated("migrate crashed with a Go panic", dict(obs, **r.brief()), tags)
    if hashlib.sha256(open(v2path, "rb").read()).hexdigest() != h0:
        return Verdict.violated("the v2 input file was modified", obs, tags)
    after = core.snapshot(root)
    touched = [k for k in core.snap_diff(before, after) if k not in (out_rel,)]
    if touched:
        return Verdict.violated("migrate touched paths other than --outfile: %s" % touched, obs, tags)
    if r.exit != 0:
        return Verdict.violated("migrate failed (exit %s) on a decodable v2 file" % r.exit, dict(obs, **r.brief()), tags)
    v3, err = y2j_file(out)
    if v3 is None:
        return Verdict.violated("v3 file is not loadable YAML: %s" % err, dict(obs, v3=open(out, errors="replace").read()[:1500]), tags)
    errs = compare(v2, v3)
    if errs:
        return Verdict.violated("; ".join(errs[:6]), dict(obs, v3=open(out, errors="replace").read()[:3000], v2=text[:3000]), tags)
    # strict loader
    r2 = core.run_mockery(ctx, root, ["showconfig", "--config", out], timeout=300)
    if r2.timed_out:
        return Verdict.inconclusive("watchdog showconfig")
    if r2.panicked:
        return Verdict.violated("mockery's loader panics on the migrated file", dict(obs, **r2.brief()), tags)
    recursive_weird = False
    if r2.exit != 0:
        return Verdict.violated("mockery's strict loader rejects the migrated file (exit %s)" % r2.exit,
                                dict(obs, v3=open(out, errors="replace").read()[:2000], **r2.brief()), tags)
    obs["v3_keys_top"] = sorted(k for k in v3 if k != "packages") if isinstance(v3, dict) else None
    nontrivial = bool(levels)
    return Verdict.held(obs, nontrivial=nontrivial, tags=tags)


def body(ctx, replay=None):
    core.build_mockery(ctx)
    ctx.rule = ("v2 trees over the full v2 key set (45 keys, unmapped keys as noise): each of the 14 mapped keys alone and all together at each of "
                "the 4 levels, anchors/aliases/merge-key documents, and random trees (null packages/interfaces, YAML-hostile names and values, "
                "0-3 configs entries); markers pairwise distinct. non-trivial = at least one mapped key present at some level; distinct = case hash")
    ctx.assumptions = ["yaml.v3 (y2j) resolves the v2 file the same way mockery's decoder does (same library)",
                       "recursive: true is only generated together with package names that exist in the scratch module (the loader lists sub-packages)",
                       "with-expecter is tolerated under template-data (carried by the tool, not in the property's list), never required"]
    cases = [replay] if replay is not None else gen_cases(ctx)
    if replay is None:
        # the first plain cases once more with the v2 file handed over through a named pipe
        plain = [c for c in cases if not c.get("search") and not c.get("stale_outfile")][: (6 if ctx.tier == "quick" else 40)]
        cases += [dict(c, i=90000 + k * 3 + 1, via_fifo=True) for k, c in enumerate(plain)]
    ctx.run_cases(cases, eval_case)
    return ctx.finish()


if __name__ == "__main__":
    core.main_wrapper("C19", "exploration", body)
