"""C08 — configuration resolves hierarchically; the most specific setting wins.

Plane P1. For every parameter and every non-empty subset of the levels {root, package,
interface config, configs entry} the parameter is set at exactly those levels with pairwise
distinct marker values, inside a tree with a sibling package, a sibling interface and a sibling
configs entry. The effective value of every one of the four mocks is observed without hooks
(output location, package clause, probe dump, which probe ran, how the probe file was
formatted, whether a sentinel was replaced, whether a schema accepted the data) and compared
with vlib/cfgmodel.resolve.  Source layering (env < file < flags) is observed the same way.
"""
import itertools
import json
import os
import re

from . import core, cfgmodel, probe, c07
from .core import Verdict

MOD = "example.com/m"
LEVELS = ["root", "pkg", "iface", "cfg"]
MOCKS = [("pa", "I1", 0), ("pa", "I1", 1), ("pa", "I2", None), ("pb", "J1", None)]
WHO = {("pa", "I1", 0): "I1c0", ("pa", "I1", 1): "I1c1", ("pa", "I2", None): "I2", ("pb", "J1", None): "J1"}

SRC = {
    "pa/a.go": "package pa\n\nimport \"example.com/m/orig\"\n\ntype I1 interface{ M(x orig.T, y orig.Other) orig.T }\n\ntype I2 interface{ N(x orig.T) }\n",
    "pb/b.go": "package pb\n\nimport \"example.com/m/orig\"\n\ntype J1 interface{ O(x orig.T) error }\n",
    "orig/o.go": "package orig\n\ntype T struct{}\n\ntype Other int\n",
    "r1/r.go": "package r1\n\ntype T struct{ A int }\n", "r2/r.go": "package r2\n\ntype T struct{ B int }\n",
    "r3/r.go": "package r3\n\ntype T struct{ C int }\n", "r4/r.go": "package r4\n\ntype T struct{ D int }\n",
}

PER_MOCK = ["dir", "filename", "pkgname", "structname", "template-data", "replace-type"]
PER_FILE = ["template", "formatter", "force-file-write", "template-schema", "require-template-schema-exists"]
PARAMS = PER_MOCK + PER_FILE


def base_config(param):
    root = {"dir": "out/{{.SrcPackageName}}", "filename": "f_{{.StructName}}.go", "pkgname": "mocks",
            "template": "file://probeA.templ", "require-template-schema-exists": False, "formatter": "noop"}
    who = param not in ("template",)
    def td(x):
        return {"template-data": {"who": x}} if who else {}
    cfg = dict(root)
    cfg["packages"] = {
        MOD + "/pa": {"config": {}, "interfaces": {
            "I1": {"config": {}, "configs": [dict(td("I1c0"), structname="I1c0"), dict(td("I1c1"), structname="I1c1")]},
            "I2": {"config": dict(td("I2"))}}},
        MOD + "/pb": {"config": {}, "interfaces": {"J1": {"config": dict(td("J1"))}}},
    }
    return cfg


def level_dict(cfg, lvl):
    if lvl == "root":
        return cfg
    pa = cfg["packages"][MOD + "/pa"]
    if lvl == "pkg":
        return pa["config"]
    if lvl == "iface":
        return pa["interfaces"]["I1"]["config"]
    return pa["interfaces"]["I1"]["configs"][1]


def set_td(d, td):
    cur = d.setdefault("template-data", {})
    for k, v in td.items():
        cur[k] = v


def markers(param, subset, rng, polarity):
    """marker value per level in subset"""
    L = {"root": "R", "pkg": "P", "iface": "I", "cfg": "C"}
    out = {}
    if param == "dir":
        for l in subset:
            out[l] = "out/d%s/{{.SrcPackageName}}" % L[l]
    elif param == "filename":
        for l in subset:
            out[l] = "g%s_{{.StructName}}.go" % L[l]
    elif param == "pkgname":
        for l in subset:
            out[l] = "pkg%s" % L[l].lower()
    elif param == "structname":
        for l in subset:
            out[l] = "S%s_{{.InterfaceName}}" % L[l]
    elif param == "template-data":
        # "shape": the same key holds a map at one level and a scalar / list / map at the next more specific one: the more specific value wins as it is
        shapes = {"root": {"m": {"fromR": 1}}, "pkg": "scalar-P", "iface": {"m": {"fromI": 1}, "n": 2}, "cfg": [1, "two"]}
        for l in subset:
            out[l] = {"k": "v" + L[l], "only" + L[l]: True, "nest": {"shared": "n" + L[l], "from" + L[l]: 1, "big" + L[l]: 2500000 + LEVELS.index(l), "deep": {"d": "dd" + L[l], "x" + L[l]: 2, "huge" + L[l]: 9007199254740993}},
                      "shape": shapes[l]}   # integers that a float64 detour would print differently (2.5e+06) or round (2^53+1)
    elif param == "replace-type":
        for n, l in enumerate(subset):
            k = LEVELS.index(l) + 1
            out[l] = {MOD + "/orig": {"T": {"pkg-path": MOD + "/r%d" % k, "type-name": "T"}}}
    elif param == "template":
        vals = {"root": "file://probeA.templ", "pkg": "file://probeB.templ", "iface": "matryer", "cfg": "file://probeC.templ"}
        for l in subset:
            out[l] = vals[l]
    elif param == "formatter":
        prev = None
        for l in subset:
            v = rng.choice([x for x in ("gofmt", "noop", "goimports") if x != prev])
            out[l] = v
            prev = v
    elif param in ("force-file-write", "require-template-schema-exists"):
        # most specific level gets `polarity`, every less specific one the opposite
        order = [l for l in LEVELS if l in subset]
        for l in order:
            out[l] = (polarity if l == order[-1] else (not polarity))
    elif param == "template-schema":
        for l in subset:
            out[l] = "file://schema_%s.json" % L[l]
    return out


def gen_cases(ctx):
    rng = ctx.rng
    cases = []
    subsets = [list(s) for n in range(1, 5) for s in itertools.combinations(LEVELS, n)]
    for param in PARAMS:
        ss = subsets
        if ctx.tier == "quick":
            ss = [s for s in subsets if len(s) in (1, 4)] + rng.sample([s for s in subsets if len(s) in (2, 3)], 3)
        for s in ss:
            pols = [True, False] if param in ("force-file-write", "require-template-schema-exists", "template-schema") else [None]
            for pol in pols:
                if param == "force-file-write":
                    for t in range(4):  # one run per mock whose output path pre-exists
                        cases.append({"kind": "levels", "param": param, "subset": s, "polarity": pol, "seed": 4 * rng.randrange(1 << 20) + t})
                else:
                    cases.append({"kind": "levels", "param": param, "subset": s, "polarity": pol, "seed": rng.randrange(1 << 30)})
                    if param in ("structname", "template-data", "replace-type"):
                        # the same levels with all mocks of a package written to one output file (per-file state must not blur per-mock settings)
                        cases.append({"kind": "levels", "param": param, "subset": s, "polarity": pol, "seed": rng.randrange(1 << 30), "onefile": True})
    # replace-type explicitly set to an EMPTY map at the most specific level of the subset: an empty map is a setting (no replacement), not an absence
    for s in ([["root", "cfg"], ["pkg", "iface"], ["root", "pkg", "iface", "cfg"]] if ctx.tier == "quick" else [x for x in subsets if len(x) >= 2]):
        for onefile in (False, True):
            cases.append({"kind": "levels", "param": "replace-type", "subset": s, "polarity": None, "seed": rng.randrange(1 << 30), "onefile": onefile, "empty_most_specific": True})
    # source layering: env < file < flags
    env_params = ["dir", "filename", "pkgname", "structname", "formatter", "template", "force-file-write", "all", "include-interface-regex"]
    for p in env_params:
        for srcs in (["env"], ["env", "file"]):
            cases.append({"kind": "sources", "param": p, "sources": srcs})
    # string-valued settings whose environment value happens to read like a boolean or a number: they stay strings
    for p, v in (("include-interface-regex", "1"), ("include-interface-regex", "t"), ("structname", "T"), ("structname", "F"), ("pkgname", "t"), ("pkgname", "f"),
                 ("dir", "0"), ("dir", "1"), ("structname", "t")):   # (not the keywords true/false themselves: the tool documents that it takes those for booleans)
        cases.append({"kind": "sources", "param": p, "sources": ["env"], "env_value": v})
    for combo in (["flag"], ["env"], ["flag", "env"], ["flag", "file"], ["env", "file"], ["flag", "env", "file"]):
        cases.append({"kind": "configsrc", "sources": combo})
    for combo in (["flag"], ["env"], ["file"], ["flag", "env"], ["flag", "file"], ["env", "file"], ["flag", "env", "file"]):
        cases.append({"kind": "loglevel", "sources": combo})
    # per-package parameters at root vs package level (selection table of C07, conflict rows and level placements)
    tbl = [c for c in c07.gen_table_cases(ctx) if c.get("root_conflict") or "pkg" in (c["all_lvl"], c["inc_lvl"], c["exc_lvl"])]
    rng.shuffle(tbl)
    for c in tbl[: (6 if ctx.tier == "quick" else 40)]:
        cases.append(dict(c, kind="pkgparams"))
    for i in range(4 if ctx.tier == "quick" else 30):
        cases.append(dict(c07.gen_tree_case(rng, 1000 + i), kind="pkgtree"))
    for c in c07.fixed_tree_cases():     # the deterministic trees: per-package parameters (recursive, exclude-subpkg-regex, selection) on the package
        cases.append(dict(c, kind="pkgtree"))
    for i in range(24 if ctx.tier == "quick" else 200):
        cases.append(gen_recleak_case(rng, i))
    # the built-in template must honour per-mock template-data for mocks sharing a file, in either order
    for j, (order, vals, rootv, where) in enumerate((
            (["Alpha", "Beta"], {"Alpha": True, "Beta": None}, None, "iface"), (["Alpha", "Beta"], {"Alpha": None, "Beta": True}, None, "iface"),
            (["Alpha", "Beta", "Gamma"], {"Alpha": True, "Beta": False, "Gamma": None}, None, "cfg"), (["Alpha", "Beta", "Gamma"], {"Alpha": False, "Beta": True, "Gamma": None}, True, "iface"),
            (["Alpha", "Beta", "Gamma"], {"Alpha": None, "Beta": False, "Gamma": True}, True, "cfg"))):
        cases.append({"kind": "builtin", "i": 6000 + j, "order": order, "vals": vals, "root": rootv, "where": where})
    # fixed witnesses: recursive package nested under a recursive package, sibling whose name merely extends it, with and without root-level data
    for j, (root_td, nested, listed) in enumerate(((None, False, False), ({"kR": "vR"}, True, False), ({"kR": "vR"}, False, True), (None, True, True))):
        def td(tag):
            d = {"k" + tag: "v" + tag}
            if nested:
                d["nest"] = {"from" + tag: tag, "big" + tag: 3000000, "deep": {"d" + tag: 1, "huge" + tag: 9007199254740993}}
            return d
        if root_td and nested:
            root_td = dict(root_td, nest={"fromR": "R", "deep": {"dR": 1}})
        pk = {"a": {"recursive": True, "td": td("A"), "listed": False}, "a/sub": {"recursive": True, "td": td("S"), "listed": listed}, "b": {"recursive": False, "td": None, "listed": listed}}
        cases.append({"kind": "recleak", "i": 5000 + j, "root_td": root_td, "pk": pk, "order": ["a/sub", "a", "b"] if j % 2 else ["b", "a", "a/sub"]})
    # fixed witnesses: maps nested two levels below template-data at the top level; a recursive package adds keys inside the inner map; one of its
    # sub-packages is listed without data of its own (it inherits the inner map from the top level first, the recursive parent is merged in afterwards):
    # nothing of that may become visible in the sibling package b or at the top level
    for j, (listed, order) in enumerate(((False, ["a", "a/sub", "b", "c"]), (True, ["b", "a/sub", "a", "c"]), (False, ["c", "b", "a/sub", "a"]))):
        root_td = {"kR": "vR", "nest": {"fromR": "R", "deep": {"dR": 1, "deeper": {"eR": 1}}}}
        pk = {"a": {"recursive": True, "td": {"kA": "vA", "nest": {"fromA": "A", "deep": {"dA": 1, "deeper": {"eA": 1}}}}, "listed": False},
              "a/sub": {"recursive": False, "td": None, "listed": listed}, "b": {"recursive": False, "td": None, "listed": listed},
              "c": {"recursive": True, "td": {"nest": {"deep": {"deeper": {"eC": 1}}}}, "listed": False}}
        cases.append({"kind": "recleak", "i": 5100 + j, "root_td": root_td, "pk": pk, "order": order})
    return cases


BUILTIN_RE = re.compile(r"^// template: (\w+)", re.M)
STRUCT_RE = re.compile(r"^type (\w+)\b.*\bstruct\b", re.M)
PKG_RE = re.compile(r"^package (\w+)", re.M)


def observe(root):
    """All generated files below root/out (and anywhere else): list of file observations."""
    obs = []
    for dp, dns, fns in os.walk(root):
        dns.sort()
        for fn in sorted(fns):
            p = os.path.join(dp, fn)
            rel = os.path.relpath(p, root)
            if not fn.endswith(".go") or rel in SRC:
                continue
            text = open(p, errors="replace").read()
            pr = probe.parse_file(p)
            if pr is not None:
                obs.append({"rel": rel, "template": pr["id"], "package": pr["package"], "formatter": pr["formatter"], "filetd": (pr["file"] or {}).get("td"),
                            "ifaces": [{"name": i["name"], "struct": i["struct"], "td": i["td"], "sigs": [m["sig"] for m in i["methods"]]} for i in pr["ifaces"]]})
                continue
            m = BUILTIN_RE.search(text)
            if m:
                structs = [s for s in STRUCT_RE.findall(text) if not s.endswith("_Expecter") and not s.endswith("_Call")]
                pk = PKG_RE.search(text)
                obs.append({"rel": rel, "template": m.group(1), "package": pk.group(1) if pk else None, "formatter": None, "filetd": None,
                            "ifaces": [{"name": None, "struct": s, "td": None, "sigs": []} for s in structs], "sentinel": False})
            elif text.startswith("// SENTINEL"):
                obs.append({"rel": rel, "template": "SENTINEL", "package": None, "formatter": None, "filetd": None, "ifaces": []})
    return obs


def find_mock(obs, mock, by_struct=None):
    who = WHO[mock]
    hits = []
    for f in obs:
        for i in f["ifaces"]:
            if by_struct is not None:
                if i["struct"] == by_struct:
                    hits.append((f, i))
            elif i["td"] is not None and ("who:%s " % who in i["td"] or "who:%s]" % who in i["td"]):
                hits.append((f, i))
    return hits


def template_data(eff, mock):
    pkg, iface, idx = mock
    return {"ConfigDir": ".", "InterfaceName": iface, "Mock": "Mock", "SrcPackageName": pkg, "SrcPackagePath": MOD + "/" + pkg,
            "StructName": eff["structname"], "Template": eff["template"], "InterfaceDir": "<abs>", "InterfaceDirRelative": pkg, "InterfaceFile": "<abs>"}


def eval_levels(ctx, case):
    import random
    rng = random.Random(case["seed"])
    param, subset, pol = case["param"], case["subset"], case["polarity"]
    cfg = base_config(param)
    mk = markers(param, subset, rng, pol)
    if case.get("empty_most_specific"):
        mk[[l for l in LEVELS if l in subset][-1]] = {}
    if case.get("onefile"):
        cfg["filename"] = "f_all.go"
    if param == "structname":
        for c in cfg["packages"][MOD + "/pa"]["interfaces"]["I1"]["configs"]:
            c.pop("structname", None)
    if param == "dir":
        cfg.pop("dir")
    if param == "filename":
        cfg.pop("filename")
    if param == "pkgname":
        cfg.pop("pkgname")
    if param in ("template", "formatter", "require-template-schema-exists"):
        cfg.pop(param)
    if param == "template" and not case.get("onefile"):
        # the effective template is also what the variable {{.Template}} of a templated value is bound to, entry by entry
        cfg["filename"] = "t_{{.StructName}}_{{.Template | base}}.go"
    files = dict(SRC)
    for pid in "ABC":
        files["probe%s.templ" % pid] = probe.probe_template(pid)
    for l in subset:
        d = level_dict(cfg, l)
        if param == "template-data":
            set_td(d, mk[l])
        else:
            d[param] = mk[l]
    expect_fail = False
    sentinel_for = None
    if param == "template-schema":
        # every schema constrains `lvl` to its own level letter; each mock's own data carries the letter of the schema the model predicts
        cfg["require-template-schema-exists"] = True
        for L in "RPIC":
            files["schema_%s.json" % L] = json.dumps({"type": "object", "properties": {"lvl": {"enum": [L]}}})
        files["probeA.templ.schema.json"] = json.dumps({"type": "object", "properties": {"lvl": {"enum": ["D"]}}})
    if param == "require-template-schema-exists":
        pass  # probeA has no schema file: a file is produced iff the effective value is false
    # model
    effs = {}
    for mock in MOCKS:
        pkg, iface, idx = mock
        effs[mock] = cfgmodel.resolve(cfgmodel.levels_for(cfg, MOD + "/" + pkg, iface, idx))
    if param == "template-schema":
        letter = {"file://schema_%s.json" % L: L for L in "RPIC"}
        for mock in MOCKS:
            L = letter.get(effs[mock]["template-schema"], "D")
            if pol is False and mock == ("pa", "I1", 1):
                L = "X"  # data that the predicted schema rejects: the run must fail
                expect_fail = True
            pkg, iface, idx = mock
            ic = cfg["packages"][MOD + "/" + pkg]["interfaces"][iface]
            tgt = ic["configs"][idx] if idx is not None else ic["config"]
            set_td(tgt, {"lvl": L})
    if param == "require-template-schema-exists":
        expect_fail = any(effs[m]["require-template-schema-exists"] for m in MOCKS)
    if param == "force-file-write":
        sentinel_for = MOCKS[case["seed"] % 4]
    files[".mockery.yml"] = json.dumps(cfg)
    root = core.scratch_module(ctx, files)
    # expected locations
    exp = {}
    for mock in MOCKS:
        eff = effs[mock]
        data = template_data(eff, mock)
        try:
            sn = cfgmodel.fixpoint(eff["structname"], data)
            data["StructName"] = eff["structname"]
            d = cfgmodel.fixpoint(eff["dir"], data)
            fn = cfgmodel.fixpoint(eff["filename"], data)
            pk = cfgmodel.fixpoint(eff["pkgname"], data)
        except Exception as e:
            return Verdict.inconclusive("model cannot evaluate: %r" % e)
        rel = os.path.normpath(os.path.join(d, fn))
        if rel.startswith("<abs>"):
            rel = os.path.normpath(os.path.join(mock[0], rel[len("<abs>"):].lstrip("/")))
        exp[mock] = {"struct": sn, "rel": rel, "package": pk, "eff": eff}
    if sentinel_for is not None:
        sp = os.path.join(root, exp[sentinel_for]["rel"])
        os.makedirs(os.path.dirname(sp), exist_ok=True)
        with open(sp, "w") as f:
            f.write("// SENTINEL\npackage x\n")
        expect_fail = not exp[sentinel_for]["eff"]["force-file-write"]
    r = core.run_mockery(ctx, root, [], timeout=300)
    if r.timed_out:
        return Verdict.inconclusive("watchdog")
    tags = ["param=" + param, "levels=" + "+".join(subset)] + (["one-file-per-package"] if case.get("onefile") else [])
    obs = {"exit": r.exit, "config": cfg}
    if r.panicked:
        return Verdict.violated("mockery crashed", dict(obs, **r.brief()), tags)
    seen = observe(root)
    obs["files"] = [{"rel": f["rel"], "template": f["template"], "package": f["package"], "formatter": f["formatter"],
                     "ifaces": [(i["name"], i["struct"], i["td"]) for i in f["ifaces"]]} for f in seen]
    if sentinel_for is not None:
        sp_rel = exp[sentinel_for]["rel"]
        still = any(f["rel"] == sp_rel and f["template"] == "SENTINEL" for f in seen)
        want = exp[sentinel_for]["eff"]["force-file-write"]
        if want and (still or r.exit != 0):
            return Verdict.violated("force-file-write resolves to true for %s (levels %s: %s) but the existing file was %s (exit %s)" %
                                    (WHO[sentinel_for], subset, mk, "kept" if still else "replaced", r.exit), dict(obs, **r.brief()), tags)
        if not want and (not still or r.exit == 0):
            return Verdict.violated("force-file-write resolves to false for %s (levels %s: %s) but the existing file was %s (exit %s)" %
                                    (WHO[sentinel_for], subset, mk, "kept" if still else "replaced", r.exit), dict(obs, **r.brief()), tags)
        return Verdict.held({"exit": r.exit, "sentinel_for": WHO[sentinel_for], "effective": want, "markers": mk}, tags=tags)
    if expect_fail:
        if r.exit == 0:
            return Verdict.violated("%s set at %s (%s): the model predicts a failing run, mockery exited 0" % (param, subset, mk), dict(obs, **r.brief()), tags)
        return Verdict.held({"exit": r.exit, "markers": mk, "expected": "failure"}, tags=tags)
    if r.exit != 0:
        return Verdict.violated("%s set at %s (%s): the model predicts success, mockery exited %s" % (param, subset, mk, r.exit), dict(obs, **r.brief()), tags)
    # compare every mock
    summary = {}
    for mock in MOCKS:
        e = exp[mock]
        by_struct = e["struct"] if param == "template" else None
        hits = find_mock(seen, mock, by_struct)
        if len(hits) != 1:
            return Verdict.violated("mock %s: expected exactly one generated mock, found %d (param %s at %s)" % (WHO[mock], len(hits), param, subset), obs, tags)
        f, i = hits[0]
        got = {"rel": f["rel"], "package": f["package"], "struct": i["struct"]}
        want = {"rel": e["rel"], "package": e["package"], "struct": e["struct"]}
        if got != want:
            return Verdict.violated("mock %s: effective dir/filename/pkgname/structname observed %s, model %s (param %s at %s, markers %s)" %
                                    (WHO[mock], got, want, param, subset, mk), obs, tags)
        eff = e["eff"]
        if param == "template-data":
            if i["td"] != cfgmodel.go_fmt(eff["template-data"]):
                return Verdict.violated("mock %s: template-data observed %s, model %s (set at %s)" % (WHO[mock], i["td"], cfgmodel.go_fmt(eff["template-data"]), subset), obs, tags)
            pkg_td = cfgmodel.resolve(cfgmodel.levels_for(cfg, MOD + "/" + mock[0]))["template-data"]
            if f["filetd"] != cfgmodel.go_fmt(pkg_td):
                return Verdict.violated("file of mock %s: file-level template-data observed %s, model %s" % (WHO[mock], f["filetd"], cfgmodel.go_fmt(pkg_td)), obs, tags)
        if param == "template":
            want_t = {"file://probeA.templ": "A", "file://probeB.templ": "B", "file://probeC.templ": "C"}.get(eff["template"], eff["template"])
            if f["template"] != want_t:
                return Verdict.violated("mock %s: rendered by template %s, model %s (set at %s)" % (WHO[mock], f["template"], want_t, subset), obs, tags)
        if param == "formatter" and f["formatter"] != eff["formatter"]:
            return Verdict.violated("mock %s: file formatted as by %s, model %s (set at %s: %s)" % (WHO[mock], f["formatter"], eff["formatter"], subset, mk), obs, tags)
        if param == "replace-type":
            rt = (eff["replace-type"] or {}).get(MOD + "/orig", {}).get("T")
            want_q = rt["pkg-path"].rsplit("/", 1)[-1] if rt else "orig"
            for sig in i["sigs"]:
                quals = set(re.findall(r"\b(\w+)\.T\b", sig))
                if quals != {want_q}:
                    return Verdict.violated("mock %s: signature %s mentions %s.T, model %s.T (replace-type set at %s)" % (WHO[mock], sig, sorted(quals), want_q, subset), obs, tags)
        summary[WHO[mock]] = got
    return Verdict.held({"exit": r.exit, "markers": mk, "mocks": summary}, tags=tags)


# ------------------------------------------------------------------ source layering

ENV_VALUES = {"dir": "out/envdir", "filename": "env_{{.StructName}}.go", "pkgname": "envpkg", "structname": "Env{{.InterfaceName}}",
              "formatter": "gofmt", "template": "file://probeB.templ", "force-file-write": "true", "all": "true", "include-interface-regex": "^I2$"}
FILE_VALUES = {"dir": "out/filedir", "filename": "file_{{.StructName}}.go", "pkgname": "filepkg", "structname": "File{{.InterfaceName}}",
               "formatter": "noop", "template": "file://probeC.templ", "force-file-write": False, "all": False, "include-interface-regex": "^I1$"}


def eval_sources(ctx, case):
    param, srcs = case["param"], case["sources"]
    cfg = {"dir": "out/base", "filename": "b_{{.StructName}}.go", "pkgname": "mocks", "template": "file://probeA.templ",
           "require-template-schema-exists": False, "formatter": "goimports",
           "packages": {MOD + "/pa": {"interfaces": {"I1": None}}}}
    if param in ("all", "include-interface-regex"):
        cfg["packages"][MOD + "/pa"] = {}
    if param in cfg and "file" not in srcs:
        cfg.pop(param)
    if "file" in srcs:
        cfg[param] = FILE_VALUES[param]
    env = {}
    if "env" in srcs:
        env["MOCKERY_" + param.upper().replace("-", "_")] = case.get("env_value", ENV_VALUES[param])
    files = dict(SRC)
    for pid in "ABC":
        files["probe%s.templ" % pid] = probe.probe_template(pid)
    files[".mockery.yml"] = json.dumps(cfg)
    root = core.scratch_module(ctx, files)
    model_cfg = dict(cfg)
    winner = "file" if "file" in srcs else "env"
    val = FILE_VALUES[param] if winner == "file" else case.get("env_value", ENV_VALUES[param])
    if isinstance(val, str) and val in ("true", "false") and param in ("force-file-write", "all"):
        val = val == "true"
    model_cfg[param] = val
    eff = cfgmodel.resolve(cfgmodel.levels_for(model_cfg, MOD + "/pa", "I1" if "interfaces" in (cfg["packages"][MOD + "/pa"] or {}) else None))
    sentinel = None
    if param == "force-file-write":
        sentinel = os.path.join(root, "out/base/b_MockI1.go")
        os.makedirs(os.path.dirname(sentinel))
        open(sentinel, "w").write("// SENTINEL\npackage x\n")
    r = core.run_mockery(ctx, root, [], env_extra=env, timeout=300)
    if r.timed_out:
        return Verdict.inconclusive("watchdog")
    tags = ["sources=" + "+".join(srcs), "param=" + param]
    seen = observe(root)
    obs = {"exit": r.exit, "env": env, "file_value": cfg.get(param), "files": [(f["rel"], f["template"], f["package"], f["formatter"], [(i["name"], i["struct"]) for i in f["ifaces"]]) for f in seen]}
    if r.panicked:
        return Verdict.violated("mockery crashed", dict(obs, **r.brief()), tags)
    if param == "force-file-write":
        replaced = not open(sentinel).read().startswith("// SENTINEL")
        if replaced != bool(eff["force-file-write"]) or (r.exit == 0) != bool(eff["force-file-write"]):
            return Verdict.violated("force-file-write from %s: model %s, sentinel replaced=%s exit=%s" % (srcs, eff["force-file-write"], replaced, r.exit), dict(obs, **r.brief()), tags)
        return Verdict.held(obs, tags=tags)
    if r.exit != 0:
        return Verdict.violated("sources %s for %s: mockery exited %s" % (srcs, param, r.exit), dict(obs, **r.brief()), tags)
    want_names = [n for n in ("I1", "I2") if cfgmodel.selected(eff, (cfg["packages"][MOD + "/pa"] or {}).get("interfaces") or {}, n)]
    got_names = sorted(i["name"] for f in seen for i in f["ifaces"] if f["template"] not in ("SENTINEL",))
    if got_names != sorted(want_names):
        return Verdict.violated("sources %s for %s=%r: mocked %s, model %s" % (srcs, param, val, got_names, want_names), obs, tags)
    for nm in want_names:
        data = {"InterfaceName": nm, "Mock": "Mock", "SrcPackageName": "pa", "StructName": eff["structname"], "Template": eff["template"]}
        sn = cfgmodel.fixpoint(eff["structname"], data)
        rel = os.path.normpath(os.path.join(cfgmodel.fixpoint(eff["dir"], data), cfgmodel.fixpoint(eff["filename"], data)))
        want = {"rel": rel, "struct": sn, "package": eff["pkgname"], "template": {"file://probeA.templ": "A", "file://probeB.templ": "B", "file://probeC.templ": "C"}[eff["template"]],
                "formatter": eff["formatter"]}
        hit = [(f, i) for f in seen for i in f["ifaces"] if i["name"] == nm]
        f, i = hit[0]
        got = {"rel": f["rel"], "struct": i["struct"], "package": f["package"], "template": f["template"], "formatter": f["formatter"]}
        if got != want:
            return Verdict.violated("sources %s for %s: observed %s, model (env < file) %s" % (srcs, param, got, want), obs, tags)
    return Verdict.held(obs, tags=tags)


def eval_configsrc(ctx, case):
    """Which config file is used: --config (flag) > MOCKERY_CONFIG (env) > search (file)."""
    srcs = case["sources"]
    files = dict(SRC)
    files["probeA.templ"] = probe.probe_template("A")
    def conf(tag):
        return json.dumps({"dir": "out", "filename": "who_%s.go" % tag, "pkgname": "mocks", "template": "file://probeA.templ",
                           "require-template-schema-exists": False, "formatter": "noop", "packages": {MOD + "/pa": {"interfaces": {"I2": None}}}})
    if "file" in srcs:
        files[".mockery.yml"] = conf("search")
    files["alt/flag.yml"] = conf("flag")
    files["alt/env.yml"] = conf("env")
    root = core.scratch_module(ctx, files)
    args, env = [], {}
    if "flag" in srcs:
        args = ["--config", "alt/flag.yml"]
    if "env" in srcs:
        env["MOCKERY_CONFIG"] = "alt/env.yml"
    r = core.run_mockery(ctx, root, args, env_extra=env, timeout=300)
    if r.timed_out:
        return Verdict.inconclusive("watchdog")
    want = "flag" if "flag" in srcs else "env" if "env" in srcs else "search"
    got = sorted(f for f in os.listdir(os.path.join(root, "out"))) if os.path.isdir(os.path.join(root, "out")) else []
    obs = {"exit": r.exit, "written": got, "sources": srcs}
    tags = ["configsrc=" + "+".join(srcs)]
    if r.panicked:
        return Verdict.violated("mockery crashed", dict(obs, **r.brief()), tags)
    if r.exit != 0 or got != ["who_%s.go" % want]:
        return Verdict.violated("config file given by %s: documented precedence (flags over environment over search) selects the %s file, observed %s (exit %s)" %
                                (srcs, want, got, r.exit), dict(obs, kf_key="config-source:%s" % "+".join(srcs), **r.brief()), tags)
    return Verdict.held(obs, tags=tags)


DBG_RE = re.compile(r"\bDBG\b")


def eval_loglevel(ctx, case):
    """log-level: flag > file > env. Only one predicate on stderr is used: are there debug-level lines."""
    srcs = case["sources"]
    files = dict(SRC)
    files["probeA.templ"] = probe.probe_template("A")
    # the winning source says debug, every losing source says error (and the other way round in the second run)
    order = ["env", "file", "flag"]
    winner = [s for s in order if s in srcs][-1]
    results = []
    for win_level, lose_level in (("debug", "error"), ("error", "debug")):
        cfg = {"dir": "out", "filename": "x.go", "pkgname": "mocks", "template": "file://probeA.templ", "require-template-schema-exists": False,
               "formatter": "noop", "force-file-write": True, "packages": {MOD + "/pa": {"interfaces": {"I2": None}}}}
        args, env = [], {}
        for s in srcs:
            lvl = win_level if s == winner else lose_level
            if s == "file":
                cfg["log-level"] = lvl
            elif s == "env":
                env["MOCKERY_LOG_LEVEL"] = lvl
            else:
                args = ["--log-level", lvl]
        f2 = dict(files)
        f2[".mockery.yml"] = json.dumps(cfg)
        root = core.scratch_module(ctx, f2)
        r = core.run_mockery(ctx, root, args, env_extra=env, timeout=300)
        if r.timed_out:
            return Verdict.inconclusive("watchdog")
        if r.exit != 0:
            return Verdict.violated("log-level from %s: mockery exited %s" % (srcs, r.exit), r.brief())
        results.append((win_level, bool(DBG_RE.search(r.err))))
    obs = {"sources": srcs, "winner": winner, "debug_lines_seen": results}
    tags = ["loglevel=" + "+".join(srcs)]
    if results != [("debug", True), ("error", False)]:
        return Verdict.violated("log-level given by %s: the %s source should win (env < file < flags); debug lines present: %s" % (srcs, winner, results),
                                dict(obs, kf_key="log-level-source:%s" % "+".join(srcs)), tags)
    return Verdict.held(obs, tags=tags)


# ------------------------------------------------------------------ leaks through recursion / shared nested maps

def gen_recleak_case(rng, i):
    def td(tag, nested):
        d = {"k" + tag: "v" + tag}
        if nested:
            d["nest"] = {"from" + tag: tag, "big" + tag: 3000000, "deep": {"d" + tag: 1, "huge" + tag: 9007199254740993}}
        return d
    nested = rng.random() < 0.6
    c = {"kind": "recleak", "i": i, "root_td": td("R", nested) if rng.random() < 0.6 else None, "pk": {}}
    c["pk"]["a"] = {"recursive": True, "td": td("A", nested) if rng.random() < 0.8 else None}
    c["pk"]["b"] = {"recursive": False, "td": td("B", nested) if rng.random() < 0.4 else None}
    if rng.random() < 0.6:
        # recursive here: its sibling a/sub2 (whose path merely *starts with* "a/sub") still belongs to `a`
        c["pk"]["a/sub"] = {"recursive": rng.random() < 0.5, "td": td("S", nested) if rng.random() < 0.6 else None}
    if rng.random() < 0.5:
        c["pk"]["c"] = {"recursive": True, "td": td("C", nested) if rng.random() < 0.6 else None}
    for p in c["pk"]:
        c["pk"][p]["listed"] = rng.random() < 0.5
    order = list(c["pk"])
    rng.shuffle(order)
    c["order"] = order
    return c


def eval_recleak(ctx, case):
    files = {"probeA.templ": probe.probe_template("A")}
    for d in ("a", "a/sub", "a/sub2", "a/sub/deep", "b", "c", "c/x"):
        files[d + "/s.go"] = "package %s\n\ntype Svc interface{ M() }\n" % d.rsplit("/", 1)[-1]
    cfg = {"all": True, "template": "file://probeA.templ", "require-template-schema-exists": False, "formatter": "noop", "filename": "m_test.go"}
    if case["root_td"]:
        cfg["template-data"] = case["root_td"]
    cfg["packages"] = {}
    for p in case["order"]:
        pc = case["pk"][p]
        conf = {}
        if pc["recursive"]:
            conf["recursive"] = True
        if pc["td"]:
            conf["template-data"] = pc["td"]
        entry = {"config": conf}
        if pc.get("listed"):
            entry["interfaces"] = {"Svc": pc["listed"] if isinstance(pc["listed"], dict) else None}
        cfg["packages"][MOD + "/" + p] = entry
    files[".mockery.yml"] = json.dumps(cfg)
    root = core.scratch_module(ctx, files)
    r = core.run_mockery(ctx, root, [], timeout=300)
    if r.timed_out:
        return Verdict.inconclusive("watchdog")
    obs = {"exit": r.exit, "config": cfg}
    tags = ["recleak"]
    if r.panicked or r.exit != 0:
        return Verdict.violated("valid recursive configuration with template-data: exit %s" % r.exit, dict(obs, **r.brief()), tags)
    root_td = case["root_td"] or {}
    seen = {}
    for f in probe.parse_tree(root):
        seen[f["file"]["srcpkg"][len(MOD) + 1:]] = (f["file"]["td"], [i["td"] for i in f["ifaces"]])
    obs["observed"] = seen
    rec = [p for p, pc in case["pk"].items() if pc["recursive"]]
    # an interface listed by name without settings of its own resolves to exactly what its package resolves to (whatever the package inherits)
    for d, pc in case["pk"].items():
        if pc.get("listed") and d in seen:
            ftd, itds = seen[d]
            if any(t != ftd for t in itds):
                return Verdict.violated("package %s: interface listed by name (no settings of its own) sees template-data %s, its package resolves to %s" % (d, itds, ftd), obs, tags)
    for d in ("a", "a/sub", "a/sub2", "a/sub/deep", "b", "c", "c/x"):
        if d in case["pk"]:
            anc = [a for a in rec if d.startswith(a + "/")]
            if anc and any(case["pk"][a]["td"] for a in anc):
                continue  # explicitly configured below a recursive ancestor that sets template-data: not decided by the statement
            want = cfgmodel.deep_merge(case["pk"][d]["td"] or {}, root_td)
        else:
            anc = [a for a in rec if d.startswith(a + "/")]
            if not anc:
                if d in seen:
                    return Verdict.violated("package %s is not configured but was mocked" % d, obs, tags)
                continue
            owner = max(anc, key=len)
            if any(case["pk"][a]["td"] for a in rec if owner.startswith(a + "/")):
                continue  # the owner itself sits below a recursive package that sets template-data: what it inherits is not decided by the statement
            between = [q for q in case["pk"] if q != owner and d.startswith(q + "/") and q.startswith(owner + "/")]
            if between:
                continue  # below an explicitly configured, non-recursive intermediate package: undecided
            want = cfgmodel.deep_merge(case["pk"][owner]["td"] or {}, root_td)
        if d not in seen:
            return Verdict.violated("package %s: no mock generated" % d, obs, tags)
        ftd, itds = seen[d]
        w = cfgmodel.go_fmt(want)
        if ftd != w or any(t != w for t in itds):
            return Verdict.violated("package %s: template-data observed file=%s iface=%s, model %s (a setting leaked between siblings or an inherited value was lost)" %
                                    (d, ftd, itds, w), obs, tags)
    return Verdict.held({"observed": seen}, tags=tags)


BUILTIN_TEST = """package p

import "testing"

// each mock is used by the calling convention its own effective unroll-variadic value implies
func TestUnrolled(t *testing.T) {
	{UNROLLED}
}

func TestRolled(t *testing.T) {
	{ROLLED}
}
"""


def eval_builtin(ctx, case):
    """per-mock template-data as seen by the *built-in* testify template: several mocks in one file, unroll-variadic set on some of them
    at interface / configs-entry level; every mock must behave by its own effective value whatever was rendered before it"""
    order = case["order"]          # interface names in source declaration order
    vals = case["vals"]            # name -> True / False / None (unset)
    src = "package p\n\n" + "".join("type %s interface{ Trace(span string, ids ...int) int }\n\n" % n for n in order)
    ifs = {}
    for n in order:
        v = vals[n]
        if v is None:
            ifs[n] = {}
        elif case["where"] == "iface":
            ifs[n] = {"config": {"template-data": {"unroll-variadic": v}}}
        else:
            ifs[n] = {"configs": [{"template-data": {"unroll-variadic": v}}]}
    cfg = {"template": "testify", "filename": "mocks_test.go", "packages": {MOD + "/p": {"interfaces": ifs}}}
    if case.get("root") is not None:
        cfg["template-data"] = {"unroll-variadic": case["root"]}
    unrolled, rolled = [], []
    for n in order:
        eff = vals[n] if vals[n] is not None else bool(case.get("root"))
        if eff:
            unrolled.append("{ m := NewMock%s(t); m.EXPECT().Trace(\"s\", 1, 2).Return(7); if m.Trace(\"s\", 1, 2) != 7 { t.Fatal(\"%s\") } }" % (n, n))
        else:
            rolled.append("{ m := NewMock%s(t); m.EXPECT().Trace(\"s\", []int{1, 2}).Return(7); if m.Trace(\"s\", 1, 2) != 7 { t.Fatal(\"%s\") } }" % (n, n))
    files = {"p/p.go": src, "p/use_test.go": BUILTIN_TEST.replace("{UNROLLED}", "\n\t".join(unrolled) or "_ = t").replace("{ROLLED}", "\n\t".join(rolled) or "_ = t"),
             ".mockery.yml": json.dumps(cfg)}
    root = core.scratch_module(ctx, files)
    r = core.run_mockery(ctx, root, [], timeout=300)
    tags = ["param=template-data@built-in-template", "where=" + case["where"]]
    if r.timed_out:
        return Verdict.inconclusive("watchdog")
    if r.panicked or r.exit != 0:
        return Verdict.violated("valid configuration, mockery exited %s" % r.exit, dict(r.brief(), config=cfg), tags)
    t = core.go_cmd(["test", "-count=1", "./p/"], root, timeout=900)
    if t.timed_out:
        return Verdict.inconclusive("watchdog go test")
    obs = {"order": order, "values": vals, "root": case.get("root"), "go_test_exit": t.exit}
    if t.exit != 0:
        return Verdict.violated("mocks sharing one file do not each follow their own effective unroll-variadic (order %s, values %s, top level %s): %s" % (
            order, vals, case.get("root"), (t.out + t.err)[-600:]), dict(obs, config=cfg), tags)
    return Verdict.held(obs, tags=tags)


def eval_case(ctx, case):
    k = case["kind"]
    if k == "builtin":
        return eval_builtin(ctx, case)
    if k == "recleak":
        return eval_recleak(ctx, case)
    if k == "levels":
        return eval_levels(ctx, case)
    if k == "sources":
        return eval_sources(ctx, case)
    if k == "configsrc":
        return eval_configsrc(ctx, case)
    if k == "loglevel":
        return eval_loglevel(ctx, case)
    if k == "pkgparams":
        v = c07.eval_table(ctx, dict(case, kind="table"))
        v.tags = ["param=selection@root/pkg"]
        return v
    if k == "pkgtree":
        v = c07.eval_tree(ctx, dict(case, kind="tree"))
        v.tags = ["param=recursive/exclude-subpkg@root/pkg/ancestor"]
        return v


def body(ctx, replay=None):
    core.build_mockery(ctx)
    ctx.rule = ("levels cases: parameter x non-empty subset of {root, package, interface config, configs entry} (thorough: all 15 subsets; quick: singletons, "
                "the full set and 3 random others) with pairwise distinct markers, observed on 4 mocks (target, sibling configs entry, sibling interface, "
                "sibling package); boolean per-file parameters in both polarities; sources cases: env only / env+file per scalar parameter, config-file "
                "source and log-level over all non-empty subsets of {flag, env, file}; per-package parameters through C07's table/tree at root vs package "
                "level. non-trivial = every case (each compares observed effective values with the model); distinct = case hash")
    ctx.assumptions = ["reference model = property text (most specific level wins; template-data merged key-wise)",
                       "stderr is inspected only for the presence of debug-level lines (log-level cases)"]
    cases = [replay] if replay is not None else gen_cases(ctx)
    ctx.run_cases(cases, eval_case)
    return ctx.finish()


if __name__ == "__main__":
    core.main_wrapper("C08", "exploration", body)
