"""C15 — name and import allocators offered to templates never produce collisions.

Plane P4: a Go driver runs random call histories against the working tree's template.Registry /
template.MethodScope (scopes constructed the way the generator constructs them) and feeds every
call/result event to an online trace monitor; each history is also re-run with its SuggestName
calls deleted and the remaining results compared.
Plane P1: generated probe templates perform such histories on `$method.Scope` / `$.Registry` of
real methods inside the real binary and print each result; the same monitor checks that trace.
"""
import json
import os
import re
import subprocess

from . import core
from .core import Verdict

PKGS = {
    "a/model": "model", "b/model": "model", "c/model": "model", "d/http0": "http0", "e/http": "http", "f/sync": "sync", "g/model0": "model0",
}
STD = {"net/http": ("http", "Request"), "sync": ("sync", "Mutex")}
NAME_POOL = ["x", "x1", "x10", "ret", "ok", "http", "http0", "http1", "model", "model0", "model1", "sync", "v", "returnFunc", "_", ""]


FIXED_SOURCES = {
    # a method without parameters and results after one that brings in an import; the same across two interfaces
    "noparams-after-import": ({"net/http": "s0", "example.com/m/a/model": "i0"},
                              [("I0", [("M0", [("r", "*s0.Request")]), ("M1", []), ("M2", [("x", "int")])]), ("I1", [("M0", []), ("M1", [("m", "i0.T")]), ("M2", [])])]),
}


def gen_source(rng, fixed=None):
    """A source package whose methods mention several same-named packages."""
    imports = {}
    ifaces = []
    if fixed:
        imports, ifaces = dict(FIXED_SOURCES[fixed][0]), list(FIXED_SOURCES[fixed][1])
    for ii in range(rng.randint(1, 3) if not fixed else 0):
        methods = []
        for mi in range(rng.randint(1, 4)):
            params = []
            for pi in range(rng.randint(0, 4)):
                name = rng.choice(NAME_POOL)
                r = rng.random()
                if r < 0.3:
                    typ = rng.choice(["int", "string", "[]byte"])
                elif r < 0.85:
                    rel = rng.choice(sorted(PKGS))
                    alias = "i%d" % sorted(PKGS).index(rel)
                    imports["example.com/m/" + rel] = alias
                    typ = rng.choice(["", "*", "[]"]) + alias + ".T"
                else:
                    path = rng.choice(sorted(STD))
                    alias = "s%d" % sorted(STD).index(path)
                    imports[path] = alias
                    typ = "*" + alias + "." + STD[path][1]
                params.append((name, typ))
            # Go forbids mixing named and unnamed, and duplicate names
            seen = set()
            fx = []
            for k, (n, t) in enumerate(params):
                if n in ("", "_") or n in seen:
                    n = "_"
                seen.add(n)
                fx.append((n, t))
            methods.append(("M%d" % mi, fx))
        ifaces.append(("I%d" % ii, methods))
    lines = ["package p", ""]
    if imports:
        lines.append("import (")
        for path, alias in sorted(imports.items()):
            lines.append('\t%s "%s"' % (alias, path))
        lines.append(")")
    for iname, methods in ifaces:
        lines.append("type %s interface {" % iname)
        for mname, params in methods:
            lines.append("\t%s(%s)" % (mname, ", ".join("%s %s" % p for p in params)))
        lines.append("}")
    files = {"p/p.go": "\n".join(lines) + "\n"}
    for rel, name in PKGS.items():
        files["%s/t.go" % rel] = "package %s\n\ntype T struct{}\n" % name
    return files, ifaces


def gen_probe(rng, ifaces, fixed=None):
    out = []
    import_pool = [("model", "example.com/m/a/model"), ("model", "example.com/m/b/model"), ("model", "example.com/m/c/model"),
                   ("model", "example.com/x/other/model"), ("http", "net/http"), ("http", "example.com/m/e/http"), ("http0", "example.com/m/d/http0"),
                   ("sync", "sync"), ("sync", "example.com/m/f/sync"), ("model0", "example.com/m/g/model0"), ("fmt", "fmt"), ("p", "example.com/m/p"),
                   # the same package once with and once without a vendor prefix: two distinct import paths
                   ("model", "example.com/m/vendor/example.com/m/a/model"), ("sync", "vendor/sync"), ("model", "example.com/m/a/model/v2")]
    out.append("{{- /* generated probe */ -}}")
    imports_ev = 'EV {"file":"f","op":"imports","list":[{{range $.Imports}}["{{.Path}}","{{.Qualifier}}"],{{end}}["~~~~","~~~~"]]}'
    out.append(imports_ev)
    for ii, (iname, methods) in enumerate(ifaces):
        for mi, (mname, params) in enumerate(methods):
            sid = "%d/%d" % (ii, mi)
            m = "(index (index $.Interfaces %d).Methods %d)" % (ii, mi)
            out.append('EV {"scope":"%s","op":"rawinit","names":[{{range %s.Params}}"{{.Var.Name}}",{{end}}"~"],"types":[{{range %s.Params}}"{{.TypeString}}",{{end}}"~"]}' % (sid, m, m))
            pool = [n for n, _ in params if n not in ("", "_")] + ["x", "ret", "ok", "http", "model", "model0", "sync", "http0", "i0", "s0"]
            if fixed:
                # every qualifier the file can have is probed and then requested in every scope, before any random operation
                for a in ("http", "model", "sync"):
                    out.append('EV {"scope":"%s","op":"exists","arg":"%s","bool":{{ %s.Scope.NameExists "%s" }}}' % (sid, a, m, a))
                    out.append('EV {"scope":"%s","op":"alloc","arg":"%s","res":"{{ %s.Scope.AllocateName "%s" }}"}' % (sid, a, m, a))
            for _ in range(rng.randint(4, 14)):
                a = rng.choice(pool)
                if rng.random() < 0.4:
                    a += str(rng.randint(0, 12))
                r = rng.random()
                if r < 0.4:
                    out.append('EV {"scope":"%s","op":"alloc","arg":"%s","res":"{{ %s.Scope.AllocateName "%s" }}"}' % (sid, a, m, a))
                elif r < 0.55:
                    out.append('EV {"scope":"%s","op":"suggest","arg":"%s","res":"{{ %s.Scope.SuggestName "%s" }}"}' % (sid, a, m, a))
                elif r < 0.8:
                    out.append('EV {"scope":"%s","op":"exists","arg":"%s","bool":{{ %s.Scope.NameExists "%s" }}}' % (sid, a, m, a))
                elif r < 0.93:
                    nm, path = rng.choice(import_pool)
                    out.append('EV {"file":"f","op":"addimport","arg":"%s","path":"%s","res":"{{ ($.Registry.AddImport "%s" "%s").Qualifier }}"}' % (nm, path, nm, path))
                elif r < 0.97:
                    out.append(imports_ev)
                else:
                    nm, path = rng.choice(import_pool)
                    out.append('EV {"file":"f","op":"pkgq_try","path":"%s"}{{ range $.Imports }}{{ if eq .Path "%s" }}\nEV {"file":"f","op":"pkgq","path":"%s","res":"{{ $.Imports.PkgQualifier "%s" }}"}{{ end }}{{ end }}' % (path, path, path, path))
    out.append(imports_ev)
    return "\n".join(out) + "\n"


QUAL_RE = re.compile(r"\b([A-Za-z_][A-Za-z0-9_]*)\.")


def eval_probe(ctx, case):
    import random
    rng = random.Random(case["seed"])
    files, ifaces = gen_source(rng, case.get("fixed"))
    in_pkg = case["in_package"]
    files["probe.templ"] = gen_probe(rng, ifaces, case.get("fixed"))
    cfg = {"template": "file://probe.templ", "require-template-schema-exists": False, "formatter": "noop", "all": True,
           "dir": "p" if in_pkg else "out", "filename": "probe_out.txt", "pkgname": "p" if in_pkg else "out",
           "packages": {"example.com/m/p": {}}}
    files[".mockery.yml"] = json.dumps(cfg)
    root = core.scratch_module(ctx, files)
    v = core.go_vet(root)
    if v.exit != 0:
        return Verdict.inconclusive("generated source rejected by the toolchain: " + v.err[-500:])
    r = core.run_mockery(ctx, root, [], timeout=300)
    if r.timed_out:
        return Verdict.inconclusive("watchdog")
    if r.exit != 0:
        if r.panicked:
            return Verdict.violated("mockery crashed while running the allocator probe", r.brief())
        return Verdict.inconclusive("probe template failed: " + r.err[-800:])
    outp = os.path.join(root, "p" if in_pkg else "out", "probe_out.txt")
    evs = []
    file_quals = set()   # qualifiers of the packages that the signatures processed so far have brought into the file (scopes are created in this order)
    for line in open(outp, errors="replace"):
        if not line.startswith("EV "):
            continue
        try:
            e = json.loads(line[3:])
        except Exception:
            return Verdict.inconclusive("unparsable probe line: " + line[:200])
        if e["op"] == "rawinit":
            names = [n for n in e["names"] if n != "~"]
            quals = set()
            for t in e["types"]:
                quals.update(QUAL_RE.findall(t))
            # an import qualifier is visible in every function body of the file: those registered before this scope was created
            # (by earlier methods and interfaces of the same output file) are names visible in it, like the ones of its own signature
            file_quals |= quals
            e = {"scope": e["scope"], "op": "init", "names": names + sorted(file_quals)}
            if len(set(names)) != len(names) or set(names) & quals:
                return Verdict.violated("scope %s: parameter names %s collide with each other or with qualifiers %s used in the same signature"
                                        % (e["scope"], names, sorted(quals)), {"types": t})
        elif e["op"] == "imports":
            e["list"] = [x for x in e["list"] if x[0] != "~~~~"]
        elif e["op"] == "pkgq_try":
            continue
        elif e["op"] == "addimport":
            e["self"] = bool(in_pkg and e["path"] == "example.com/m/p")
        evs.append(e)
    p = subprocess.run([ctx.harness, "monitor"], input="\n".join(json.dumps(e) for e in evs) + "\n", capture_output=True, text=True)
    if p.returncode != 0:
        return Verdict.inconclusive("monitor failed: " + p.stderr[-400:])
    s = json.loads(p.stdout)
    ctx.count("probe_events", s["events"])
    ctx.count("probe_scopes", s["scopes"])
    if s["violations"]:
        return Verdict.violated(s["violations"][0], {"violations": s["violations"][:8], "events": evs[:60]})
    return Verdict.held({"events": s["events"], "scopes": s["scopes"], "first_events": evs[:6]}, nontrivial=s["events"] >= 6)


def eval_gen(ctx, case):
    # the driver is bounded in CPU time (a batch of histories needs a few seconds): an API call that never returns ends the process with a signal
    r = core.run([ctx.harness, "gen", str(case["seed"]), str(case["histories"])], cwd=ctx.root, env=core.scratch_env(), timeout=1800, cpu_limit=90)
    if r.timed_out:
        return Verdict.inconclusive("watchdog")
    if r.cpu_killed or (r.exit is not None and r.exit < 0):
        return Verdict.violated("an allocator / registry call did not return: the driver was killed after 90 CPU-seconds (exit %s); last operations logged: %s" % (
            r.exit, (r.err or r.out)[-400:].replace("\n", " | ")), r.brief())
    if r.exit != 0:
        return Verdict.violated("allocator driver died (exit %s)" % r.exit, r.brief())
    s = json.loads(r.out.strip().splitlines()[-1])
    ctx.count("histories", s["histories"])
    ctx.count("events", s["events"])
    ctx.count("distinct_result_sequences", s["distinct_result_sequences"])
    ctx.count("alloc_calls", s["alloc_calls"])
    if s["violations"]:
        return Verdict.violated(s["violations"][0], {"violations": s["violations"][:8]})
    return Verdict.held({"histories": s["histories"], "events": s["events"], "distinct_result_sequences": s["distinct_result_sequences"],
                         "sample_history": s["samples"][:1]})


def eval_case(ctx, case):
    return eval_probe(ctx, case) if case["kind"] == "probe" else eval_gen(ctx, case)


def body(ctx, replay=None):
    core.build_mockery(ctx)
    ctx.harness = core.build_harness(ctx, "alloc")
    ctx.rule = ("gen cases: child process running `histories` random histories (5-40 calls of AllocateName/SuggestName/AddName/NameExists/AddImport/"
                "Imports/PkgQualifier/new scope over 5 prefixes x suffixes 0-12 and 12 import paths over 6 package names, in and out of package), "
                "scopes seeded like the generator does (AddVar per parameter + ResolveVariableNameCollisions), online monitor + differential re-run "
                "without SuggestName; probe cases: generated file:// template performing such histories on real methods through the real binary. "
                "non-trivial = >= 6 monitored events; distinct = case hash (evidence also reports distinct result sequences)")
    ctx.assumptions = ["AddName cannot be called from a template (no result), so P1 histories use Allocate/Suggest/NameExists/AddImport/Imports/PkgQualifier",
                       "for P1 scopes the names 'visible by construction' are the method's parameter names and the qualifiers occurring in its own type strings "
                       "and in the type strings of the methods and interfaces processed before it for the same output file",
                       "no particular suffix scheme is asserted"]
    if replay is not None:
        cases = [replay]
    else:
        nb, per, npr = (16, 4000, 40) if ctx.tier == "quick" else (32, 16000, 300)
        cases = [{"kind": "gen", "seed": ctx.seed * 1009 + i, "histories": per} for i in range(nb)]
        cases += [{"kind": "probe", "seed": 4242 + j, "in_package": False, "fixed": f} for f in sorted(FIXED_SOURCES) for j in range(2)]
        cases += [{"kind": "probe", "seed": ctx.seed * 7919 + j, "in_package": j % 3 == 0} for j in range(npr)]
    ctx.run_cases(cases, eval_case)
    return ctx.finish()


if __name__ == "__main__":
    core.main_wrapper("C15", "exploration", body)
