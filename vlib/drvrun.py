"""Harness for the reflective Go drivers (C03, C04, C05): generate mocks with the real binary,
keep the ones that compile, write driver + registration files into the mocks' package, run the
test binary (optionally with -race) and parse the DRVJSON lines it prints."""
import json
import os
import random
import re
import subprocess

from . import core, gosrc, mockgen, c01, c02

DRVDIR = os.path.join(core.VERIF, "godrv", "mockdrv")


def struct_name(iface):
    n = iface["name"]
    return ("Mock" if n[0].isupper() else "mock") + n


def ctor_name(iface):
    s = struct_name(iface)
    return ("New" if s[0].isupper() else "new") + s[0].upper() + s[1:]


def render_targs(ta, imports):
    out = []
    for a in ta:
        for k in gosrc.FOREIGN:
            if "{%s}" % k in a:
                a = a.replace("{%s}" % k, "aq_" + k)
                imports.add(k)
        out.append(a)
    return "[" + ", ".join(out) + "]"


def registration(info, ifaces, case, inpkg):
    imports = set()
    lines = []
    srcq = "" if inpkg else "srcq."
    td = case.get("td") or {}
    skipped = 0
    for i in ifaces:
        inst = ""
        if i["tparams"]:
            if not i["targs"]:
                skipped += 1
                continue
            inst = render_targs(i["targs"][0], imports)
        sn = struct_name(i)
        td = dict(case.get("td") or {})
        td.update((case.get("td_by_name") or {}).get(i["name"]) or {})
        if case["template"] == "matryer":
            ctor = "func(t drvT) any { return &%s%s{} }" % (sn, inst)
        else:
            ctor = "func(t drvT) any { return %s%s(t) }" % (ctor_name(i), inst)
        opts = 'drvOpts{Template: %s, Unroll: %s, StubImpl: %s, WithResets: %s, Feature: %s}' % (
            json.dumps(case["template"]), "true" if td.get("unroll-variadic") is True else "false", "true" if td.get("stub-impl") is True else "false",
            "true" if td.get("with-resets") is True else "false", json.dumps(i["feature"]))
        if i.get("no_iface"):   # the mock intentionally differs from the source interface (replace-type): methods are taken from the expecter
            lines.append("\tdrvRegister(%s, %s, nil, %s)" % (json.dumps(sn + inst), ctor, opts))
            continue
        lines.append("\tdrvRegister(%s, %s, reflect.TypeOf((*%s%s%s)(nil)).Elem(), %s)" % (json.dumps(sn + inst), ctor, srcq, i["name"], inst, opts))
    body_text = "\n".join(lines)
    head = ["package %s" % info["outpkg"], "", "import ("]
    if "reflect." in body_text:
        head.append('\t"reflect"')
    if not inpkg and "srcq." in body_text:
        head.append('\tsrcq "%s"' % info["srcpath"])
    for k in sorted(imports):
        head.append('\taq_%s "%s/ext/%s"' % (k, gosrc.MOD, gosrc.FOREIGN[k][0]))
    head.append(")")
    return "\n".join(head) + "\n\nfunc init() {\n" + "\n".join(lines) + "\n}\n", skipped


def install_driver(root, info, parts, reg_text):
    outdir = os.path.join(root, info["outdir"])
    for part in parts:
        text = open(os.path.join(DRVDIR, part + ".go.txt")).read().replace("package PKGNAME", "package " + info["outpkg"], 1)
        with open(os.path.join(outdir, "zz_drv_%s_test.go" % part), "w") as f:
            f.write(text)
    with open(os.path.join(outdir, "zz_drv_reg_test.go"), "w") as f:
        f.write(reg_text)


def prepare(ctx, case, ifaces, known):
    """generate + compile; returns (root, info, usable ifaces, note) or (None, None, None, Verdict-like reason)"""
    ifaces = [i for i in ifaces if not c02.c01_known(known, case["template"], i["feature"])]
    if not ifaces:
        return None, None, [], "all interfaces are C01 known findings"
    root, info = mockgen.build_module(ctx, case, ifaces, extra_cfg=case.get("extra_cfg"))
    pre = mockgen.precheck(root)
    if pre.exit != 0:
        return None, None, None, "generated package rejected by the toolchain: " + (pre.err + pre.out)[-500:]
    ok, failures, r = mockgen.run_generation(ctx, root, info, case, ifaces)
    by_name = {i["name"]: i for i in ifaces}
    crashed = [(n, ri) for n, ri in sorted(failures.items()) if ri.panicked or (ri.exit is not None and ri.exit < 0)]
    if crashed:
        # the tool ended in a Go panic / fatal error or was killed for spinning while generating the mocks under test: nothing this check is about can hold for
        # that interface (a plain refusal, exit 1 with a diagnostic, stays C01's business)
        n, ri = crashed[0]
        return None, None, None, {"crash": "mockery %s while generating the mock of %s (feature %s)" % ("crashed" if ri.panicked else "was killed (exit %s)" % ri.exit, n, by_name[n]["feature"]),
                                  "brief": ri.brief(1200), "iface": gosrc.render_iface(by_name[n])}
    comp = mockgen.compile_all(root, info)
    broken = set()
    if comp.exit != 0:
        per, _ = mockgen.attribute_compile_errors(comp, info, [by_name[n] for n in ok], case["placement"])
        broken = set(per)
        if not broken:
            return None, None, None, "destination package does not compile for an unattributed reason: " + (comp.err + comp.out)[-400:]
        for n in broken:
            p = os.path.join(root, mockgen.out_file(info, by_name[n], case["placement"]))
            if os.path.exists(p):
                os.unlink(p)
    usable = [by_name[n] for n in sorted(ok - broken)]
    return root, info, usable, {"not_generated": sorted(failures), "not_compiling": sorted(broken)}


RACE_RE = re.compile(r"WARNING: DATA RACE")


def run_tests(root, info, test_name, env_extra, race=False, timeout=1800, extra_args=()):
    cmd = ["go", "test", "-trimpath", "-count=1", "-vet=off", "-v", "-run", test_name]
    if race:
        cmd.append("-race")
    if info.get("tags"):
        cmd += ["-tags", "mocktag"]
    cmd += list(extra_args) + ["./" + info["outdir"]]
    env = core.scratch_env(env_extra)
    r = core.run(cmd, cwd=root, env=env, timeout=timeout)
    findings, summary = [], None
    for line in r.out.splitlines():
        if line.startswith("DRVJSON "):
            try:
                d = json.loads(line[len("DRVJSON "):])
            except Exception:
                continue
            if "summary" in d:
                summary = d
            else:
                findings.append(d)
    races = len(RACE_RE.findall(r.out + r.err))
    return r, findings, summary, races


CRASH_RE = re.compile(r"^(panic: |fatal error: |\[signal SIG)", re.M)
GEN_FRAME_RE = re.compile(r"\b(mock_\w+\.go):(\d+)")


def crash_in_generated(r):
    """the test binary was built and then died (unrecovered panic in a goroutine, runtime fatal error such as 'concurrent map writes' or
    'all goroutines are asleep'): returns a description if a frame of a generated file is on one of the printed stacks, else None.
    A build failure is not a crash."""
    text = r.out + "\n" + r.err
    if "[build failed]" in text or not CRASH_RE.search(text):
        return None
    if "panic: test timed out after" in text:
        return None   # the go test watchdog is wall-clock time: inconclusive, whatever the goroutine dump shows
    m = CRASH_RE.search(text)
    tail = text[m.start():]
    g = GEN_FRAME_RE.search(tail)
    if not g:
        return None
    first = tail.splitlines()[0][:200]
    return {"crash": first, "generated_frame": "%s:%s" % (g.group(1), g.group(2)), "trace_head": tail[:1800]}
