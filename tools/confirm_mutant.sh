#!/bin/bash
# tools/confirm_mutant.sh <mutdir> — confirm a seeded change in a fresh scratch worktree of /repo:
# applies, builds, existing suite green with it, demo fails with it and passes without. Writes <mutdir>/confirm.json.
d="$(realpath "$1")"; name="$(basename "$d")"
wt="/tmp/cwt.$name.$$"
export GOPROXY=off; unset GOFLAGS GOWORK GOSUMDB GOTOOLCHAIN
git -C /repo worktree add -q --detach "$wt" HEAD || exit 2
cleanup(){ git -C /repo worktree remove --force "$wt" 2>/dev/null; rm -rf "$wt"; }
trap cleanup EXIT
cd "$wt"
applies=false; builds=false; suite=false; demo_fails=false; demo_passes=false
git apply "$d/patch.diff" && applies=true
if $applies; then
  (go build ./... && cd tools && go build ./...) >/tmp/cm.$$.build 2>&1 && builds=true
  fails=0
  for m in . internal/fixtures/example_project/pkg_with_submodules; do
    (cd $m && go test -vet=off -count=1 ./... 2>&1) > /tmp/cm.$$.suite.$(echo $m|tr / _) ; 
    grep -E "^(FAIL|---\s*FAIL|panic:)" /tmp/cm.$$.suite.* >/dev/null && fails=1
  done
  [ $fails = 0 ] && suite=true
  git checkout -q go.work.sum 2>/dev/null
  bash "$d/demo.sh" "$wt" >/tmp/cm.$$.demo1 2>&1; rc1=$?
  [ $rc1 != 0 ] && demo_fails=true
  git checkout -q -- . ; git clean -fdq
  bash "$d/demo.sh" "$wt" >/tmp/cm.$$.demo2 2>&1; rc2=$?
  [ $rc2 = 0 ] && demo_passes=true
fi
printf '{"head":"%s","applies":%s,"builds":%s,"suite_green_with_change":%s,"demo_fails_with_change":%s,"demo_passes_without":%s}\n' \
  "$(git -C /repo rev-parse --short HEAD)" $applies $builds $suite $demo_fails $demo_passes > "$d/confirm.json"
cat "$d/confirm.json"
rm -f /tmp/cm.$$.*
