#!/bin/bash
# tools/try_mutant.sh <patch.diff> <ID> [tier]  — apply a seeded change to /repo, run the check, undo it.
patch="$1"; id="$2"; tier="${3:-quick}"
cd /repo || exit 2
if [ -n "$(git status --porcelain)" ]; then echo "/repo not clean"; exit 2; fi
git apply "$patch" || { echo "patch does not apply"; exit 2; }
cd /verif
./check "$id" --tier "$tier" > /tmp/mutant_out.$$ 2>&1; rc=$?
grep -E "VIOLATION|KNOWN-FINDING|HELD|VIOLATED|INCONCLUSIVE" /tmp/mutant_out.$$ | cut -c1-300 | head -8
grep -E "^  why:" /tmp/mutant_out.$$ | cut -c1-400 | head -3
rm -f /tmp/mutant_out.$$
git -C /repo checkout -- . ; git -C /repo clean -fdq
git -C /verif checkout -- evidence 2>/dev/null
echo "rc=$rc"
