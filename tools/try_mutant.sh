#!/bin/bash
# tools/try_mutant.sh <patch.diff> <ID> [tier] — run a check against a seeded change WITHOUT touching /repo:
# the change is applied to a scratch copy of /repo's working tree and the check is pointed at it (VERIF_REPO);
# evidence and replays of that run go to a scratch directory. (Equivalent to: git -C /repo apply; ./check; git -C /repo checkout -- .)
patch="$(realpath "$1")"; id="$2"; tier="${3:-quick}"
w=$(mktemp -d /tmp/mutrun.XXXXXX); trap 'rm -rf "$w"' EXIT
rsync -a --exclude .git /repo/ "$w/repo/"
(cd "$w/repo" && git apply "$patch") || { echo "patch does not apply"; exit 2; }
cd /verif
VERIF_REPO="$w/repo" VERIF_EVIDENCE_DIR="$w/evidence" VERIF_REPLAY_DIR="$w/replays" ./check "$id" --tier "$tier" > "$w/out" 2>&1; rc=$?
grep -E "VIOLATION|KNOWN-FINDING|HELD|VIOLATED|INCONCLUSIVE" "$w/out" | cut -c1-300 | head -8
grep -E "^  why:" "$w/out" | cut -c1-400 | head -3
echo "rc=$rc"
