#!/usr/bin/env python3
"""tools/keep_mutant.py <mutdir> <property> <detected: yes|no|partial> <check tier> "<what the check reported>"
Copies a confirmed seeded change into /verif/seeded/<name>/ with meta.json."""
import json, os, shutil, sys
src, prop, detected, tier, report = sys.argv[1:6]
name = os.path.basename(src.rstrip("/"))
dst = os.path.join("/verif/seeded", name)
os.makedirs(dst, exist_ok=True)
for fn in os.listdir(src):
    if fn in ("confirm.json",):
        continue
    p = os.path.join(src, fn)
    if os.path.isdir(p):
        shutil.copytree(p, os.path.join(dst, fn), dirs_exist_ok=True)
    else:
        shutil.copy(p, os.path.join(dst, fn))
confirm = json.load(open(os.path.join(src, "confirm.json")))
readme = open(os.path.join(src, "README.md")).read() if os.path.exists(os.path.join(src, "README.md")) else ""
meta = {
    "id": name, "property": prop, "origin": "independent sub-agent given only the property text and a scratch worktree",
    "needs_to_manifest": readme.strip(),
    "confirmed_in_scratch_worktree": confirm,
    "commands_run": ["tools/confirm_mutant.sh /tmp/mut/%s  (git worktree of /repo HEAD: git apply, go build ./..., pinned suite modules, demo.sh with and without the change)" % name,
                     "tools/try_mutant.sh seeded/%s/patch.diff %s %s  (scratch copy of /repo + git apply there; VERIF_REPO=<copy> ./check %s --tier %s; copy removed)" % (name, prop, tier, prop, tier)],
    "detected_by_check": detected, "tier": tier, "check_report": report,
}
json.dump(meta, open(os.path.join(dst, "meta.json"), "w"), indent=1)
print("kept", dst)
