#!/bin/bash
# tools/process_mutant.sh <mutdir> <ID> [tier] : confirm in a fresh worktree, then run the property's check against it
d="$1"; id="$2"; tier="${3:-quick}"
echo "== $d ($id)"
grep -l "" "$d/patch.diff" >/dev/null || { echo "no patch"; exit 1; }
echo "files: $(grep '^diff --git' $d/patch.diff | sed 's/.* b\///' | tr '\n' ' ')"
/verif/tools/confirm_mutant.sh "$d" | tail -1
/verif/tools/try_mutant.sh "$d/patch.diff" "$id" "$tier" 2>&1 | grep -v KNOWN | tail -4 | cut -c1-420
