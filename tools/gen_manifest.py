#!/usr/bin/env python3
"""Regenerates MANIFEST.json from tools/checks_table.json (one entry per implemented check)."""
import json, os
V = os.path.dirname(os.path.dirname(os.path.abspath(__file__)))
table = json.load(open(os.path.join(V, "tools", "checks_table.json")))
props = [json.loads(l)["id"] for l in open(os.path.join(V, "properties.jsonl"))]
checks = []
for pid in props:
    t = table["checks"].get(pid)
    if not t:
        continue
    checks.append({
        "property_id": pid,
        "quick_cmd": "./check %s --tier quick" % pid,
        "thorough_cmd": "./check %s --tier thorough" % pid,
        "evidence_file": "/verif/evidence/%s.json" % pid,
        "replay_cmd_template": "./check replay {path}",
        "engine": t.get("engine", "vlib"),
        "level_claimed": {"category": t["category"], "text": t["text"], "design_ref": "DESIGN.md §4 " + pid},
        "level_note": t["note"],
        "technique": t["technique"],
    })
na = [{"property_id": p, "reason": table["not_applicable"].get(p, "check not built yet in this round; see DESIGN.md §9 for the build order")}
      for p in props if p not in table["checks"]]
m = {
    "version": 1,
    "setup_cmd": "cd /verif/gohelpers && env -u GOSUMDB -u GOWORK GOPROXY=off GOFLAGS=-mod=mod GOTOOLCHAIN=auto go build -o bin/ ./cmd/...",
    "hooks": {
        "guard": "verif",
        "enable": "checks build a scratch copy of /repo's working tree with `go build -tags verif`; no source hooks exist (all observation points are at the process, file-system, toolchain and generated-code boundary)",
        "baseline_off_cmd": json.load(open("/root/.vp/BASELINE.json"))["cmd"] if os.path.exists("/root/.vp/BASELINE.json") else table.get("baseline_cmd", ""),
        "source_commits": [],
        "add_only": True,
    },
    "engines": table["engines"],
    "checks": checks,
    "not_applicable": na,
    "notes": table.get("notes", ""),
}
json.dump(m, open(os.path.join(V, "MANIFEST.json"), "w"), indent=1)
print("checks:", [c["property_id"] for c in checks], "na:", len(na))
