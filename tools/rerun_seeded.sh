#!/bin/bash
# tools/rerun_seeded.sh [parallel] — runs every kept seeded change against the quick tier of its property's check (scratch copy, /repo untouched)
# and writes seeded/STATUS.md: one line per change with the outcome on the current checks and the current /repo HEAD.
par="${1:-3}"; cd /verif; out=$(mktemp -d /tmp/reseed.XXXXXX)
for d in seeded/*/; do n=$(basename $d); id=$(python3 -c "import json;print(json.load(open('$d/meta.json'))['property'])")
  ( tools/try_mutant.sh $d/patch.diff $id quick > $out/$n.txt 2>&1 ) &
  while [ $(jobs -r | wc -l) -ge $par ]; do sleep 1; done
done; wait
{ echo "# seeded changes against the current checks (quick tier), /repo HEAD $(git -C /repo rev-parse --short HEAD), /verif $(git rev-parse --short HEAD)"; echo
  for d in seeded/*/; do n=$(basename $d); f=$out/$n.txt
    if grep -q "patch does not apply" $f; then s="PATCH-DOES-NOT-APPLY"; elif grep -q "^rc=1" $f; then s="detected"; elif grep -q "^rc=0" $f; then s="NOT-detected"; else s="inconclusive($(grep '^rc=' $f))"; fi
    echo "- $n: $s — $(grep -v KNOWN $f | grep -m1 'why:' | sed 's/^  why: //' | cut -c1-160)"; done; } > seeded/STATUS.md
grep -c ": detected" seeded/STATUS.md; grep -v ": detected" seeded/STATUS.md | tail -n +3
rm -rf $out
