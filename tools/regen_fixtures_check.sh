#!/bin/bash
# Regenerates the repository's own fixture mocks in a scratch copy of /repo's working tree with the repository's two
# configs and reports which checked-in mock files differ (safety criterion used for template/generator fixes).
set -e
d=$(mktemp -d /tmp/regen.XXXXXX); trap 'rm -rf $d' EXIT
rsync -a --exclude .git /repo/ $d/src/
cd $d/src; export GOPROXY=off; unset GOFLAGS GOWORK GOSUMDB GOTOOLCHAIN
go build -o $d/mockery . 
find . -name 'mocks_matryer_*' -delete 2>/dev/null || true
MOCKERY_FORCE_FILE_WRITE=true MOCKERY_CONFIG=./.mockery_testify.yml $d/mockery >/dev/null 2>$d/t.err || { echo "testify regen FAILED"; tail -5 $d/t.err; }
MOCKERY_FORCE_FILE_WRITE=true MOCKERY_CONFIG=./.mockery_matryer.yml $d/mockery >/dev/null 2>$d/m.err || { echo "matryer regen FAILED"; tail -5 $d/m.err; }
cd $d/src; changed=0
for f in $(cd /repo && git ls-files | grep -E 'mocks?_.*\.go$|mock_.*\.go$'); do
  if [ -f "$f" ]; then cmp -s "$f" "/repo/$f" || { echo "DIFFERS: $f"; changed=$((changed+1)); }; else echo "MISSING after regen: $f"; fi
done
echo "regenerated fixtures differing from checked-in files: $changed"
