#!/bin/bash
# tools/run_suite.sh — runs the pinned suite (/root/.vp/BASELINE.json stable_pass list) against /repo HEAD in a scratch worktree
# (never inside /repo: go test there rewrites go.work.sum) with the verif guard off, and reports how many of the pinned tests pass.
wt=/tmp/suite.$$; export GOPROXY=off; unset GOFLAGS GOWORK GOSUMDB GOTOOLCHAIN
git -C /repo worktree add -q --detach "$wt" HEAD || exit 2
trap 'git -C /repo worktree remove --force "$wt" 2>/dev/null; rm -rf "$wt" /tmp/suite.$$.json' EXIT
for m in $(cat /w/out/gomods.txt); do
  MF=$(cd $wt/$m && gw=$(go env GOWORK); if [ -z "$gw" ] || [ "$gw" = off ]; then echo "-mod=mod"; fi)
  (cd $wt/$m && go test $MF -json -vet=off -count=1 -timeout 25m ./... 2>&1)
done > /tmp/suite.$$.json
python3 - /tmp/suite.$$.json <<'P'
import json,sys
want=set(json.load(open('/root/.vp/BASELINE.json'))['stable_pass'])
res={}
for line in open(sys.argv[1],errors='replace'):
    try: e=json.loads(line)
    except Exception: continue
    if e.get('Test') and e.get('Action') in ('pass','fail','skip'):
        res[e['Package']+'::'+e['Test']]=e['Action']
ok=[t for t in want if res.get(t)=='pass']
bad={t:res.get(t) for t in want if res.get(t)!='pass'}
print("pinned tests passing: %d/%d"%(len(ok),len(want)))
for t,a in sorted(bad.items()): print("  NOT PASSING:",t,a)
extra_fail=[t for t,a in res.items() if a=='fail' and t not in want]
if extra_fail: print("  other failing tests:",extra_fail[:10])
sys.exit(0 if not bad else 1)
P
