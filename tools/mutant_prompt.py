#!/usr/bin/env python3
"""tools/mutant_prompt.py <round-dir-suffix> [ids...] — writes the prompt given to an independent sub-agent that is asked for seeded
changes: the property text and the location of its own scratch worktree, nothing from /verif."""
import json, sys
props = {json.loads(l)['id']: json.loads(l) for l in open('/verif/properties.jsonl')}
T = '''You are helping to evaluate a verification framework for the Go project vektra/mockery (a CLI that generates testify/matryer mock implementations of Go interfaces through text templates). Your job: craft {n} independent, realistic *bugs* (source changes to mockery) that each break the property stated below, while the project still compiles and its existing test suite still passes. Work ONLY inside your own git worktree at {wt} (already created, on a detached HEAD of the repository). Never touch /repo or /verif, never read anything under /verif. NEVER use `git stash` (the stash is shared with other worktrees).

## The property to break ({pid}: {title})

{statement}

Scope (quantifier): {quant}

## What I need for each bug (bug 1 .. bug {n})

1. A small source change to mockery (Go code and/or the embedded templates under internal/*.templ, tools/ for the release tagger) that a developer could plausibly make by mistake or during a refactor, and that violates the property above. It must need something *specific* to manifest — e.g. an unusual input shape, a particular combination of configuration levels, a multi-step sequence, a particular interleaving, a fault at a particular point, or two cooperating sites that each look fine alone — NOT something ordinary use or the existing tests would expose at once. The {n} bugs should differ in mechanism and location.
2. The project must still build (`go build ./...`) and the existing test suite must still pass with the change applied. The suite command (run from the worktree root; takes ~1 min; it must report no failures) is:
   `for m in . internal/fixtures/example_project/pkg_with_submodules internal/fixtures/example_project/pkg_with_submodules/submodule internal/fixtures/example_project/pkg_with_submodules/subpkg/submodule; do (cd $m && go test -vet=off -count=1 ./... 2>&1 | grep -v "^ok\\|no test files"); done` — and for changes under tools/: `cd tools && go build ./...`.
3. A demonstration: a shell script `demo.sh` (taking the path of a mockery source tree as $1, building the binary from it into a temp dir, and exercising it; or running a small Go test/program against it) that exits non-zero (FAILS) when run against the tree with your change and exits 0 (PASSES) against the unchanged tree. Keep it self-contained and offline; put temp files under a `mktemp -d` directory and clean up.
4. Save, for bug k, into the directory {out}/{pid}-k/ : `patch.diff` (output of `git diff` in the worktree, applying cleanly to the worktree's HEAD with `git apply`), `demo.sh` (+ any helper files it needs, referenced relative to the script's own directory), and `README.md` (3-10 lines: what the change does, which part of the property it breaks, and what exactly is needed for it to manifest). After saving a bug, run `git checkout -- . && git clean -fdq` in the worktree before starting the next bug, so each patch is independent and relative to the same HEAD.

## Additional guidance for this round

Two earlier rounds already produced the obvious and the moderately subtle bugs for this property. Aim for the kind of regression found in real project histories, for example: a performance refactor (memoisation / caching / pooling / reuse of a buffer or map) whose key or reset is incomplete; a helper replaced by a "simpler" standard-library call with slightly different semantics (TrimRight vs TrimSuffix, filepath.Join cleaning, strings.Title, sort stability, EqualFold); iteration switched to a map; a check moved earlier or later than the state it guards; an error swallowed or converted into a warning on one path only; an off-by-one at a boundary (empty, single element, last element, exactly-at-limit); Unicode / multi-byte input; symlinks, relative vs absolute paths, trailing separators; an option read from the wrong configuration level or only from the first of several entries; a lock whose scope is narrowed or a read lock used for a write; deferred cleanup that runs on the success path only; behaviour that differs only on the second run or when outputs already exist. The source files most relevant to this property are: {anchors}. Spread your two bugs over different files or mechanisms where you can. As before, each bug must leave the build and the existing test suite green, and must be a change a reviewer could plausibly wave through.

## Environment facts (sandbox is offline)

- Always `export GOPROXY=off` and leave GOFLAGS, GOSUMDB, GOTOOLCHAIN unset (the repo is a go.work workspace; the required toolchain go1.23.7 is cached and auto-selected). Do not pass -mod=mod inside the repository.
- Build the binary with `cd <tree> && go build -o <tmp>/mockery .` (5-20 s). The release tagger lives in `<tree>/tools` (`cd <tree>/tools && go build -o <tmp>/mockery-tools .`; subcommand `tag`, reads VERSION from mockery-tools.env in . or ..).
- Building inside the worktree may modify `go.work.sum`; exclude that file from patch.diff (`git checkout go.work.sum` before `git diff`).
- To run mockery on a small scratch module (under mktemp -d): go.mod with `module example.com/m`, `go 1.23`, `require github.com/stretchr/testify v1.10.0`; copy `go.sum` from the repository root; run with `GOFLAGS=-mod=mod GOWORK=off GOPROXY=off`; config in `.mockery.yml` (see docs/ in the repository for the configuration format; `packages:` is required; JSON is accepted as YAML). `go vet ./...` / `go test ./...` work in such a module offline.
- No network, no new modules can be fetched. python3 is available.

## Final answer

Reply with a short summary per bug: directory, one-line description, what is needed to manifest, and the exact commands you ran to confirm (suite green with change; demo fails with change, passes without). Be honest if you could not confirm something.
'''
GUIDANCE4 = """Three earlier rounds already produced the obvious, the moderately subtle and the "classic regression" bugs for this property (incomplete cache keys, TrimRight-for-TrimSuffix, map iteration, string-prefix-for-path-prefix, missing O_TRUNC, shadowed identifiers, settings read from the wrong level). Do not repeat those mechanisms. Aim for changes that look like *semantics-preserving refactors* and would pass review: extracting a helper that evaluates its arguments at a different time; value receiver vs pointer receiver, or a struct copied where it used to be shared (or the reverse); deep copy replaced by shallow copy of a nested map or slice; re-ordering two initialisation steps; a default filled in earlier or later than before (nil vs false for optional booleans, empty vs unset strings); path normalisation (filepath.Clean / Abs / EvalSymlinks / ToSlash) applied on one side of a comparison only; case-insensitive comparison where it was exact; a compiled, anchored or multi-line regexp replacing a plain one; errors.Is vs == ; template whitespace trimming ({{- -}}) moved; a loop that now stops at the first match or the first error; a slice re-sliced instead of copied; a defer moved into or out of a loop; a `continue` that used to be a `return`; a condition simplified with De Morgan's law incorrectly for one combination. The source files most relevant to this property are: {anchors}. Spread your two bugs over different files or mechanisms where you can. Each bug must leave the build and the existing test suite green, and must need a specific input, configuration or sequence to show."""
MENU = ["value vs pointer receiver, or a struct copied where it used to be shared (or the reverse)", "slice aliasing: append or re-slice on a shared backing array, a result slice handed out without copy",
        "dependence on map iteration order", "off-by-one at a boundary (empty, single element, last element, exactly-at-limit, index vs length)",
        "error handling: an error swallowed, shadowed by :=, checked after the value is used, or turned into a warning on one path", "string handling: case folding, rune vs byte, Unicode, prefix/suffix/cutset confusion",
        "path handling: Clean / Abs / Rel / ToSlash / EvalSymlinks / trailing separator / relative-to-what", "regular expressions: anchoring, flags, leftmost-first vs longest, compile-once caching",
        "locking and concurrency in the generated code or the tool: lock scope, lock order, RLock for a write, sync.Once, captured loop variable", "caching / memoisation / pooling with an incomplete key or a missing reset",
        "defaulting: nil vs zero value, omitted vs explicitly empty, optional booleans", "order of initialisation or merge steps (something read before it is filled in, or merged twice)",
        "text/template details: whitespace trimming, a branch taken for one more or one fewer case, variable scope inside range/with", "go/types and go/packages API details (Underlying vs Unalias, Origin, TypeArgs, Obj().Pkg() == nil, Syntax vs GoFiles vs CompiledGoFiles, load modes)",
        "loop control: break / continue / return, first match vs all matches, early exit on the first error vs collecting", "file I/O: open flags, modes, truncation, create-vs-exists checks, temp files, close/sync ordering",
        "precedence between defaults, environment, config file and flags, or between configuration levels", "YAML / JSON encode-decode round trips: omitempty, inline, pointer vs value fields, key quoting, anchors",
        "validation short-circuits: a check skipped for an 'obviously fine' case, validated copy differs from used copy", "the diagnostic path: an exit status, log level or message decided by a condition that is subtly different from the condition that caused it"]
GUIDANCE5 = """Earlier rounds have used up the attractive, obvious bugs for this property, so this round assigns the mechanism families. You have been assigned these four families; craft your two bugs from the TWO that fit this property and this code base best (one bug per family), and say in README.md which family each belongs to:

{assigned}

Within a family, avoid the first idea that comes to mind (it has probably been tried): look for a place in the code where the family applies that is at least two call levels away from the obvious one, or that only matters for an unusual but legal input. The change must read like a refactor, clean-up or small optimisation that a reviewer would wave through, must leave the build and the existing suite green, and must need a specific input, configuration, sequence or interleaving to show. The source files most relevant to this property are: {anchors} (the bug itself may live elsewhere, e.g. in a helper those files call)."""
GUIDANCE7 = """Six earlier rounds have used up single-site bugs for this property. This round asks for two different kinds, one bug of each; say in README.md which is which.

Bug 1 - from an assigned mechanism family. Craft it from the ONE of these four families that fits this property and this code base best, at a place at least two call levels away from the obvious one:

{assigned}

Bug 2 - an *interaction* bug: the change is harmless for every feature, entry, file or run taken alone and shows only when two of them meet. Pick one row:
  - two interfaces / packages / `configs` entries / output files in ONE run, where the result for the later one depends on what was processed before it (state carried across loop iterations, a shared registry, template object, map or buffer);
  - a second invocation on the tree that a first invocation (possibly of an older configuration) left behind: outputs that exist, are longer, shorter, read-only, symlinks, or belong to another package;
  - the environment: working directory different from the config directory, config found by search vs given by flag, MOCKERY_* environment variables vs file vs flags, symlinked directories, nested modules, go.work, build tags;
  - an option *explicitly set to its default* (false, "", [], {{}}) at one level while another level sets it to something else, versus the option being absent;
  - sizes: zero, one, many (no methods, no parameters, nine or more parameters, many interfaces in one file, very long or very short names, deep package nesting);
  - a language feature combined with another (generic + variadic, generic + embedded, constraint + alias, type parameter named like a package or a local, replace-type + generic, unnamed + blank parameters);
  - for generated mocks: a *sequence* of uses (call, reset, call; an expectation set twice; Once/Times/Maybe/Unset followed by more calls; sequential use after concurrent use; a mock shared by two tests).

Both bugs must read like a refactor, clean-up or small optimisation that a reviewer would wave through, must leave the build and the existing suite green, and must need a specific input, configuration, sequence or interleaving to show. The source files most relevant to this property are: {anchors} (the bug itself may live elsewhere, e.g. in a helper those files call)."""
GUIDANCE8 = """Seven earlier rounds have used up the bugs that make the tool fail, crash, or write files that do not compile. This round asks for two *quiet* kinds, one bug of each; say in README.md which is which.

Bug 1 - a silent wrong value. The tool exits 0, every written file parses and compiles, generated mocks link and run - and yet something the property constrains is subtly wrong: the wrong element of several (first instead of matching, previous iteration's instead of this one's), an order that is reversed or unstable only for equal keys, an index or count off by one, a zero value / empty string / default where configured data should be, a value taken from the neighbouring level, entry, parameter, method or file, a message or name that mentions the wrong thing, a record that aliases caller memory, a comparison that is true for one more or one fewer case. Prefer a site where the wrong value is *plausible* (a reviewer reading the output would not blink).

Bug 2 - a boundary or environment bug that needs an unusual but legal situation: sizes exactly at a power of two or at a buffer size (8, 9, 64, 65, 4096, 65536 items / bytes / parameters / methods / nesting levels); names or paths with spaces, dots, dashes, underscores, leading digits, Unicode, a trailing separator, `..` segments, or equal prefixes; read-only or missing directories, unusual umask or file modes, files that are symlinks / FIFOs / empty / huge / without trailing newline / with CRLF or a BOM; HOME, PWD, GOFLAGS, GOWORK, TMPDIR or MOCKERY_* set to unusual values; the working directory being the file-system root of the module, a sub-directory, or outside the module; two runs at the same time.

Both bugs must read like a refactor, clean-up or small optimisation that a reviewer would wave through, must leave the build and the existing suite green, and must need a specific input, configuration, sequence or interleaving to show. The source files most relevant to this property are: {anchors} (the bug itself may live elsewhere, e.g. in a helper those files call)."""
GUIDANCE9 = """Eight earlier rounds have produced some three hundred bugs for these properties. This round asks for two special kinds, one bug of each; say in README.md which is which.

Bug 1 - a termination or resource bug. For one specific legal input, configuration or call sequence the tool - or a generated mock at run time - loops forever, deadlocks, recurses without bound, takes exponential time or memory, leaks goroutines or file descriptors, blocks on a pipe, lock or channel, or retries endlessly; for every ordinary input nothing changes and the suite stays green. Your demo must bound its own waiting (e.g. `timeout 60 ...`) and fail when the bound is hit.

Bug 2 - the adversary's choice. Assume the property is guarded by a strong automated harness that generates thousands of random source packages, configurations and call sequences, compares results with a reference model, compiles and runs the generated code, uses the race detector, injects faults, and writes each setting at every configuration level. Think about what such a harness most likely does NOT vary - because it is tedious to generate, hard to model, or looks irrelevant - and put your bug exactly there. Say in README.md what you assumed the harness would not vary, and why a real user could still run into it.

Both bugs must read like a refactor, clean-up or small optimisation that a reviewer would wave through, must leave the build and the existing suite green, and must need a specific input, configuration, sequence or interleaving to show. The source files most relevant to this property are: {anchors} (the bug itself may live elsewhere, e.g. in a helper those files call)."""
GUIDANCE10 = """Nine earlier rounds have produced some 360 bugs for these properties. This round asks for two special kinds, one bug of each; say in README.md which is which.

Bug 1 - two cooperating sites. The change consists of TWO edits in different functions (preferably different files). Each edit applied alone is behaviour-preserving or at least harmless for the property (say in README.md why each looks fine alone, and confirm it: with only one of the two edits your demo must still pass); together they break the property for a specific legal input, configuration or sequence. Typical shapes: a producer that stops normalising / sorting / copying / defaulting because "the consumer does it anyway" plus a consumer that stops for the symmetric reason; an invariant established in a constructor and relied upon three calls later; a sentinel value (empty string, nil, -1, zero time) that one site starts to produce and another site already interprets specially; a cache filled at one site and keyed at another; an error wrapped at one site and compared with == at another.

Bug 2 - an analogue of a bug that real users have reported against Go mock generators (mockery v1/v2/v3, moq, gomock/mockgen, counterfeiter, testify) or against tools built on go/packages and go/types. Recall what such reports looked like - import paths whose last element is not the package name (gopkg.in/yaml.v3, .../v2 major-version suffixes, dashes or dots in directory names, go-xyz), vendored or replaced modules, nested modules and go.work, dot imports and blank imports and renamed imports in the source file, cgo or assembly files in the package, files excluded by GOOS/GOARCH suffix or build tags, test-only declarations, `internal` packages, type aliases under the gotypesalias setting, generic constraints with methods or embedded constraints, embedded interfaces from other packages with unexported methods, interfaces that embed `error` or `fmt.Stringer` or `comparable`, function-typed or channel-typed parameters of named types, named results shadowing packages, Windows-style or very long paths, config files with tabs / BOM / CRLF / duplicate keys / anchors, YAML booleans like `yes`/`on`, numbers where strings are expected, and so on - and re-introduce an analogue of one into this code base at a place where this property depends on it. Say in README.md which kind of report inspired it.

Both bugs must read like a refactor, clean-up or small optimisation that a reviewer would wave through, must leave the build and the existing suite green, and must need a specific input, configuration, sequence or interleaving to show. The source files most relevant to this property are: {anchors} (the bug itself may live elsewhere, e.g. in a helper those files call)."""
GUIDANCE11A = """Ten earlier rounds have produced some 400 bugs for these properties. This round asks you for ONE bug of a special kind (budget: about 25 minutes).

A fault, a hostile environment or an unusual usage sequence at a particular point. Choose whichever fits this property:
  - for properties about the tool: the bug shows only when something goes wrong or is unusual at ONE specific moment of a run - an I/O error on one of several files (a directory that is not writable, a file that cannot be read, a full or read-only file system, a path component that is a file, a file that vanishes or appears between two steps, a permission bit, a very long path), an interrupted or partial read/write, a process started with an unusual umask / stdin closed / stdout a closed pipe / HOME unset / a signal arriving, a second instance of the tool running at the same moment on the same tree, a dependency (git, go toolchain, template server) answering slowly, with an error, or with unexpected but legal output. The unchanged tool must behave correctly in that situation and your change must break it only there.
  - for properties about the generated mocks at run time: the bug shows only under an unusual but legal *usage sequence* - the mock used before/after the constructor's cleanup ran, a zero-value mock not made by the constructor, a mock copied by value, expectations set twice or removed (Unset) or marked Maybe/Times(0)/Once and then exceeded, the same mock shared by parallel subtests, a Func field swapped while calls are in flight, Calls() results retained across resets, panics inside user callbacks (Run/RunAndReturn/Func) followed by further use of the mock, callbacks that call back into the mock or block, very many calls (growth), nil receivers.

The change must read like a refactor, clean-up or small optimisation that a reviewer would wave through, must leave the build and the existing suite green, and must need that specific situation to show. Your demo must bound its own waiting (e.g. `timeout 60 ...`). The source files most relevant to this property are: {anchors} (the bug itself may live elsewhere, e.g. in a helper those files call)."""
GUIDANCE11B = """Ten earlier rounds have produced some 400 bugs for these properties. This round asks you for ONE bug (budget: about 25 minutes): the adversary's choice, second edition.

Assume the property is guarded by a strong automated harness that has already survived ten rounds of seeded bugs: it generates thousands of random source packages, configurations and call sequences, compares results with reference models, compiles and runs the generated code under the race detector, injects faults at every documented pipeline stage, writes each setting at every configuration level, and has learned from earlier adversaries to vary the things that look irrelevant. Before writing any code, list FIVE candidate bugs in README.md; for each say in one line why such a harness would or would not catch it; then implement the one you believe it is LEAST likely to catch, and say what blind spot you are betting on (for example: something that is tedious to generate, something whose correct behaviour is hard to model so the harness probably does not assert it, a quantity the harness probably keeps small, a combination of three things, a legal input that looks like a generator bug so the harness probably avoids it, behaviour that only shows in what is NOT written or NOT printed, a difference visible only to a downstream consumer of the output). A real user must still be able to run into it, and it must clearly violate the property as stated.

The change must read like a refactor, clean-up or small optimisation that a reviewer would wave through, must leave the build and the existing suite green, and must need a specific input, configuration, sequence or interleaving to show. The source files most relevant to this property are: {anchors} (the bug itself may live elsewhere, e.g. in a helper those files call)."""
suffix = sys.argv[1]
if suffix.startswith("11"):
    a = T.index("## Additional guidance for this round")
    b = T.index("## Environment facts")
    T = T[:a] + "## Additional guidance for this round\n\n{guidance5}\n\n" + T[b:]
if suffix.startswith("10"):
    a = T.index("## Additional guidance for this round")
    b = T.index("## Environment facts")
    T = T[:a] + "## Additional guidance for this round\n\n{guidance5}\n\n" + T[b:]
if suffix.startswith("9") and not suffix.startswith("10"):
    a = T.index("## Additional guidance for this round")
    b = T.index("## Environment facts")
    T = T[:a] + "## Additional guidance for this round\n\n{guidance5}\n\n" + T[b:]
if suffix.startswith("8"):
    a = T.index("## Additional guidance for this round")
    b = T.index("## Environment facts")
    T = T[:a] + "## Additional guidance for this round\n\n{guidance5}\n\n" + T[b:]
if suffix.startswith("7"):
    a = T.index("## Additional guidance for this round")
    b = T.index("## Environment facts")
    T = T[:a] + "## Additional guidance for this round\n\n{guidance5}\n\n" + T[b:]
if suffix.startswith("5") or suffix.startswith("6"):
    a = T.index("## Additional guidance for this round")
    b = T.index("## Environment facts")
    T = T[:a] + "## Additional guidance for this round\n\n{guidance5}\n\n" + T[b:]
if suffix.startswith("4"):
    a = T.index("## Additional guidance for this round")
    b = T.index("## Environment facts")
    T = T[:a] + "## Additional guidance for this round\n\n" + GUIDANCE4.replace("{{- -}}", "{{{{- -}}}}") + "\n\n" + T[b:]
for pid in (sys.argv[2:] or sorted(props)):
    p = props[pid]
    extra = {}
    if suffix.startswith("5") or suffix.startswith("6"):
        k = int(pid[1:])
        fam = [(k * 7) % 20, (k * 7 + 5) % 20, (k * 7 + 11) % 20, (k * 7 + 16) % 20]
        if suffix.startswith("6"):   # the families not offered to this property in round 5
            fam = [(k * 7 + 3) % 20, (k * 7 + 8) % 20, (k * 7 + 13) % 20, (k * 7 + 18) % 20]
        extra["guidance5"] = GUIDANCE5.format(assigned="\n".join("  - " + MENU[f] for f in fam), anchors=', '.join(p['anchors']['files']))
    if suffix.startswith("11"):
        extra["guidance5"] = (GUIDANCE11A if int(pid[1:]) % 2 else GUIDANCE11B).format(anchors=', '.join(p['anchors']['files']))
    elif suffix.startswith("10"):
        extra["guidance5"] = GUIDANCE10.format(anchors=', '.join(p['anchors']['files']))
    elif suffix.startswith("9"):
        extra["guidance5"] = GUIDANCE9.format(anchors=', '.join(p['anchors']['files']))
    if suffix.startswith("8"):   # the twelve families offered to this property in rounds 5-7 are named as used up
        k = int(pid[1:])
        fam = sorted(set((k * 7 + o) % 20 for o in (0, 5, 11, 16, 3, 8, 13, 18, 1, 6, 12, 17)))
        extra["guidance5"] = GUIDANCE8.format(assigned="; ".join(MENU[f].split(":")[0].split(" (")[0] for f in fam), anchors=', '.join(p['anchors']['files']))
    if suffix.startswith("7"):   # four families not offered to this property in rounds 5 and 6
        k = int(pid[1:])
        fam = [(k * 7 + 1) % 20, (k * 7 + 6) % 20, (k * 7 + 12) % 20, (k * 7 + 17) % 20]
        extra["guidance5"] = GUIDANCE7.format(assigned="\n".join("  - " + MENU[f] for f in fam), anchors=', '.join(p['anchors']['files']))
    open('/tmp/mut%s_prompt_%s.txt' % (suffix, pid), 'w').write(T.format(**extra, 
        n=(1 if suffix.startswith('11') else 2), wt='/tmp/wt%s/%s' % (suffix, pid), out='/tmp/mut%s' % suffix, pid=pid, title=p['title'], statement=p['statement'],
        quant=p['quantifier']['text'], anchors=', '.join(p['anchors']['files'])))
print('ok')
