#!/bin/bash
# tools/sweep.sh "<seeds>" "<tiers>" : run every registered check sequentially; print one line per run, full logs under sweep_logs/
cd "$(dirname "$0")/.." || exit 2
seeds="${1:-1 2 3}"; tiers="${2:-quick}"
mkdir -p sweep_logs
(cd gohelpers && env -u GOSUMDB -u GOWORK GOPROXY=off GOFLAGS=-mod=mod GOTOOLCHAIN=auto go build -o bin/ ./cmd/...) || exit 2
ids=$(python3 -c "import json;print(' '.join(c['property_id'] for c in json.load(open('MANIFEST.json'))['checks']))")
for tier in $tiers; do for s in $seeds; do for id in $ids; do
  t0=$(date +%s)
  VERIF_SEED=$s ./check $id --tier $tier > sweep_logs/$id.$tier.$s.log 2>&1; rc=$?
  t1=$(date +%s)
  echo "$id tier=$tier seed=$s rc=$rc wall=$((t1-t0))s $(grep -E ' (HELD|VIOLATED|INCONCLUSIVE) ' sweep_logs/$id.$tier.$s.log | tail -1 | cut -c1-160)"
done; done; done
