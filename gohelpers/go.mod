module verif/gohelpers

go 1.23

require (
	github.com/anishathalye/porcupine v1.3.0
	gopkg.in/yaml.v3 v3.0.1
)
