module verif/gohelpers

go 1.23.0

toolchain go1.23.5

require (
	github.com/anishathalye/porcupine v1.3.0
	golang.org/x/tools v0.31.0
	gopkg.in/yaml.v3 v3.0.1
)

require (
	golang.org/x/mod v0.24.0 // indirect
	golang.org/x/sync v0.12.0 // indirect
)
