// pcheck: sanity check that porcupine v1.3.0 is linkable offline (and keeps its go.sum lines in this
// module's go.sum, from which the scratch modules of C05 take theirs). Checks a tiny register history.
package main

import (
	"fmt"

	"github.com/anishathalye/porcupine"
)

func main() {
	m := porcupine.Model{
		Init: func() interface{} { return 0 },
		Step: func(st, in, out interface{}) (bool, interface{}) {
			if w, ok := in.(int); ok && w >= 0 {
				return true, w
			}
			return out.(int) == st.(int), st
		},
	}
	ops := []porcupine.Operation{{ClientId: 0, Input: 1, Call: 0, Output: 0, Return: 10}, {ClientId: 1, Input: -1, Call: 5, Output: 1, Return: 15}}
	fmt.Println(porcupine.CheckOperations(m, ops))
}
