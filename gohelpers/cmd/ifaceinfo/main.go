// ifaceinfo: independent (go/types) facts about the named interface types of a package, used as
// reference for what mockery's data model must contain: full method set (incl. promoted methods),
// variadic flags, number of type parameters. Usage: ifaceinfo <dir> <pattern>; prints JSON.
package main

import (
	"encoding/json"
	"fmt"
	"go/types"
	"os"

	"golang.org/x/tools/go/packages"
)

type method struct {
	Name     string `json:"name"`
	Variadic bool   `json:"variadic"`
	NParams  int    `json:"nparams"`
	NResults int    `json:"nresults"`
}
type iface struct {
	Methods  []method `json:"methods"`
	NTParams int      `json:"ntparams"`
}

func main() {
	cfg := &packages.Config{Mode: packages.NeedTypes | packages.NeedName | packages.NeedFiles | packages.NeedSyntax | packages.NeedTypesInfo | packages.NeedImports, Dir: os.Args[1]}
	pkgs, err := packages.Load(cfg, os.Args[2])
	if err != nil || len(pkgs) == 0 {
		fmt.Fprintln(os.Stderr, "load:", err)
		os.Exit(3)
	}
	out := map[string]iface{}
	scope := pkgs[0].Types.Scope()
	for _, name := range scope.Names() {
		tn, ok := scope.Lookup(name).(*types.TypeName)
		if !ok || tn.IsAlias() {
			continue
		}
		named, ok := tn.Type().(*types.Named)
		if !ok {
			continue
		}
		it, ok := named.Underlying().(*types.Interface)
		if !ok {
			continue
		}
		it = it.Complete()
		inf := iface{NTParams: named.TypeParams().Len()}
		for i := 0; i < it.NumMethods(); i++ {
			m := it.Method(i)
			sig := m.Type().(*types.Signature)
			inf.Methods = append(inf.Methods, method{Name: m.Name(), Variadic: sig.Variadic(), NParams: sig.Params().Len(), NResults: sig.Results().Len()})
		}
		out[name] = inf
	}
	json.NewEncoder(os.Stdout).Encode(out)
}
