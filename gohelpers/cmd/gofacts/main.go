// gofacts: facts about Go source files computed with the standard library's go/parser and
// go/ast, printed as JSON: whether ast.IsGenerated holds, the package name, the byte offset
// of the package clause, text before the package clause, type declarations (name -> count),
// imports, function/method names. One JSON object per file argument.
package main

import (
	"encoding/json"
	"go/ast"
	"go/parser"
	"go/token"
	"os"
)

type facts struct {
	File        string            `json:"file"`
	ParseError  string            `json:"parse_error,omitempty"`
	Generated   bool              `json:"generated"`
	Package     string            `json:"package"`
	PackagePos  int               `json:"package_pos"`
	Preamble    string            `json:"preamble"`
	TypeDecls   map[string]int    `json:"type_decls"`
	Imports     map[string]string `json:"imports"`
	Funcs       []string          `json:"funcs"`
	Idents      []string          `json:"idents"`
	BuildLines  []string          `json:"build_lines"`
}

func main() {
	out := []facts{}
	for _, fn := range os.Args[1:] {
		f := facts{File: fn, TypeDecls: map[string]int{}, Imports: map[string]string{}}
		src, err := os.ReadFile(fn)
		if err != nil {
			f.ParseError = err.Error()
			out = append(out, f)
			continue
		}
		fset := token.NewFileSet()
		file, err := parser.ParseFile(fset, fn, src, parser.ParseComments)
		if err != nil {
			f.ParseError = err.Error()
			out = append(out, f)
			continue
		}
		f.Generated = ast.IsGenerated(file)
		f.Package = file.Name.Name
		f.PackagePos = fset.Position(file.Package).Offset
		f.Preamble = string(src[:f.PackagePos])
		for _, cg := range file.Comments {
			for _, c := range cg.List {
				if c.Pos() < file.Package && len(c.Text) > 10 && c.Text[:10] == "//go:build" {
					f.BuildLines = append(f.BuildLines, c.Text)
				}
			}
		}
		for _, im := range file.Imports {
			name := ""
			if im.Name != nil {
				name = im.Name.Name
			}
			f.Imports[im.Path.Value] = name
		}
		seen := map[string]bool{}
		ast.Inspect(file, func(n ast.Node) bool {
			switch x := n.(type) {
			case *ast.TypeSpec:
				f.TypeDecls[x.Name.Name]++
			case *ast.FuncDecl:
				name := x.Name.Name
				if x.Recv != nil && len(x.Recv.List) > 0 {
					t := x.Recv.List[0].Type
					for {
						switch tt := t.(type) {
						case *ast.StarExpr:
							t = tt.X
							continue
						case *ast.IndexExpr:
							t = tt.X
							continue
						case *ast.IndexListExpr:
							t = tt.X
							continue
						}
						break
					}
					if id, ok := t.(*ast.Ident); ok {
						name = id.Name + "." + name
					}
				}
				f.Funcs = append(f.Funcs, name)
			case *ast.Ident:
				if !seen[x.Name] {
					seen[x.Name] = true
					f.Idents = append(f.Idents, x.Name)
				}
			}
			return true
		})
		out = append(out, f)
	}
	json.NewEncoder(os.Stdout).Encode(out)
}
