// fileserve: serves a directory over http and https on loopback for the checks that exercise
// http(s):// templates offline. It mints a throw-away CA + leaf certificate for 127.0.0.1 (the
// CA is written to <outdir>/ca.pem; mockery is run with SSL_CERT_FILE pointing at it), prints one
// JSON line {"http":port,"https":port,"ca":path} and then one line per request ("REQ <scheme> <path> <status>").
// Exits when stdin is closed.
package main

import (
	"crypto/ecdsa"
	"crypto/elliptic"
	"crypto/rand"
	"crypto/tls"
	"crypto/x509"
	"crypto/x509/pkix"
	"encoding/json"
	"encoding/pem"
	"fmt"
	"io"
	"math/big"
	"net"
	"net/http"
	"os"
	"path/filepath"
	"strconv"
	"sync"
	"time"
)

var mu sync.Mutex

type rec struct {
	http.ResponseWriter
	status int
}

func (r *rec) WriteHeader(s int) { r.status = s; r.ResponseWriter.WriteHeader(s) }

func logging(scheme string, h http.Handler) http.Handler {
	return http.HandlerFunc(func(w http.ResponseWriter, req *http.Request) {
		r := &rec{ResponseWriter: w, status: 200}
		h.ServeHTTP(r, req)
		mu.Lock()
		fmt.Printf("REQ %s %s %d\n", scheme, req.URL.Path, r.status)
		mu.Unlock()
	})
}

func main() {
	dir, outdir := os.Args[1], os.Args[2]
	caKey, _ := ecdsa.GenerateKey(elliptic.P256(), rand.Reader)
	caT := &x509.Certificate{SerialNumber: big.NewInt(1), Subject: pkix.Name{CommonName: "verif throw-away CA"},
		NotBefore: time.Now().Add(-time.Hour), NotAfter: time.Now().Add(240 * time.Hour), IsCA: true,
		KeyUsage: x509.KeyUsageCertSign | x509.KeyUsageDigitalSignature, BasicConstraintsValid: true}
	caDER, err := x509.CreateCertificate(rand.Reader, caT, caT, &caKey.PublicKey, caKey)
	if err != nil {
		panic(err)
	}
	caCert, _ := x509.ParseCertificate(caDER)
	leafKey, _ := ecdsa.GenerateKey(elliptic.P256(), rand.Reader)
	leafT := &x509.Certificate{SerialNumber: big.NewInt(2), Subject: pkix.Name{CommonName: "127.0.0.1"},
		NotBefore: time.Now().Add(-time.Hour), NotAfter: time.Now().Add(240 * time.Hour),
		KeyUsage: x509.KeyUsageDigitalSignature, ExtKeyUsage: []x509.ExtKeyUsage{x509.ExtKeyUsageServerAuth},
		IPAddresses: []net.IP{net.ParseIP("127.0.0.1")}, DNSNames: []string{"localhost"}}
	leafDER, err := x509.CreateCertificate(rand.Reader, leafT, caCert, &leafKey.PublicKey, caKey)
	if err != nil {
		panic(err)
	}
	caPath := filepath.Join(outdir, "ca.pem")
	os.WriteFile(caPath, pem.EncodeToMemory(&pem.Block{Type: "CERTIFICATE", Bytes: caDER}), 0o644)
	plain := http.FileServer(http.Dir(dir))
	// paths below /trunc/ are served with the full Content-Length of the file but only the first half of its bytes, after which the
	// connection is closed: a transfer that dies midway (flaky proxy, reset connection)
	fs := http.HandlerFunc(func(w http.ResponseWriter, req *http.Request) {
		// paths below /status/<code>/ are answered with that status: 206 with the first half of the file (a range answer nobody asked for),
		// 204 and 205 without a body, any other code with the whole file
		const spfx = "/status/"
		if len(req.URL.Path) > len(spfx)+4 && req.URL.Path[:len(spfx)] == spfx && req.URL.Path[len(spfx)+3] == '/' {
			code, cerr := strconv.Atoi(req.URL.Path[len(spfx) : len(spfx)+3])
			data, err := os.ReadFile(filepath.Join(dir, filepath.FromSlash(req.URL.Path[len(spfx)+4:])))
			if err != nil || cerr != nil {
				http.NotFound(w, req)
				return
			}
			switch code {
			case 204, 205:
				data = nil
			case 206:
				w.Header().Set("Content-Range", fmt.Sprintf("bytes 0-%d/%d", len(data)/2-1, len(data)))
				data = data[:len(data)/2]
			}
			w.Header().Set("Content-Type", "text/plain")
			w.WriteHeader(code)
			w.Write(data)
			return
		}
		const pfx = "/trunc/"
		if len(req.URL.Path) <= len(pfx) || req.URL.Path[:len(pfx)] != pfx {
			plain.ServeHTTP(w, req)
			return
		}
		data, err := os.ReadFile(filepath.Join(dir, filepath.FromSlash(req.URL.Path[len(pfx):])))
		if err != nil {
			http.NotFound(w, req)
			return
		}
		if r, ok := w.(*rec); ok {
			w = r.ResponseWriter // the logging wrapper does not forward Hijack
		}
		hj, ok := w.(http.Hijacker)
		if !ok {
			http.Error(w, "no hijack", 500)
			return
		}
		conn, buf, err := hj.Hijack()
		if err != nil {
			return
		}
		fmt.Fprintf(buf, "HTTP/1.1 200 OK\r\nContent-Type: text/plain\r\nContent-Length: %d\r\n\r\n", len(data))
		buf.Write(data[:len(data)/2])
		buf.Flush()
		conn.Close()
	})
	l1, err := net.Listen("tcp", "127.0.0.1:0")
	if err != nil {
		panic(err)
	}
	l2, err := net.Listen("tcp", "127.0.0.1:0")
	if err != nil {
		panic(err)
	}
	tl := tls.NewListener(l2, &tls.Config{Certificates: []tls.Certificate{{Certificate: [][]byte{leafDER}, PrivateKey: leafKey}}})
	go http.Serve(l1, logging("http", fs))
	go http.Serve(tl, logging("https", fs))
	mu.Lock()
	json.NewEncoder(os.Stdout).Encode(map[string]any{"http": l1.Addr().(*net.TCPAddr).Port, "https": l2.Addr().(*net.TCPAddr).Port, "ca": caPath})
	mu.Unlock()
	io.Copy(io.Discard, os.Stdin)
}
