// y2j: decode YAML (yaml.v3, the library mockery itself uses) from stdin or a file and
// print JSON. Map keys are stringified. Exit 3 on a decode error.
package main

import (
	"encoding/json"
	"fmt"
	"io"
	"os"

	"gopkg.in/yaml.v3"
)

func conv(v any) any {
	switch x := v.(type) {
	case map[string]any:
		m := map[string]any{}
		for k, e := range x {
			m[k] = conv(e)
		}
		return m
	case map[any]any:
		m := map[string]any{}
		for k, e := range x {
			m[fmt.Sprint(k)] = conv(e)
		}
		return m
	case []any:
		for i := range x {
			x[i] = conv(x[i])
		}
		return x
	}
	return v
}

func main() {
	var in io.Reader = os.Stdin
	if len(os.Args) > 1 {
		f, err := os.Open(os.Args[1])
		if err != nil {
			fmt.Fprintln(os.Stderr, err)
			os.Exit(3)
		}
		defer f.Close()
		in = f
	}
	b, _ := io.ReadAll(in)
	var v any
	if err := yaml.Unmarshal(b, &v); err != nil {
		fmt.Fprintln(os.Stderr, err)
		os.Exit(3)
	}
	out, err := json.Marshal(conv(v))
	if err != nil {
		fmt.Fprintln(os.Stderr, err)
		os.Exit(3)
	}
	os.Stdout.Write(out)
}
