#!/usr/bin/env python3
import os, subprocess, sys, json, re, collections, concurrent.futures as cf, shutil
ROOT='/tmp/exp/pilot/mod'; MOD='example.com/pm'
MOCKERY=sys.argv[1] if len(sys.argv)>1 else '/tmp/mockery'
env=dict(os.environ, GOPROXY='off', GOFLAGS='-mod=mod')
pkgs=json.load(open('/tmp/exp/pilot/pkgs.json'))
combos=[('testify','goimports',None),('testify','gofmt',True),('testify','noop',False),('matryer','goimports',None),('matryer','gofmt',None),('matryer','noop',None)]
def cfg(pkg,tmpl,fmt,unroll,iface=None):
    td={}
    if tmpl=='testify' and unroll is not None: td['unroll-variadic']=unroll
    if tmpl=='matryer': td={'with-resets':True,'stub-impl':True}
    c={'dir':'{{.InterfaceDir}}','filename':'zz_%s_%s_test.go'%(tmpl,fmt),'force-file-write':True,'template':tmpl,'formatter':fmt,
       'structname':('T' if tmpl=='testify' else 'Q')+fmt.capitalize()+'{{.InterfaceName}}','template-data':td,
       'packages':{MOD+'/'+pkg:({'config':{'all':True}} if iface is None else {'interfaces':{iface:{}}})}}
    return c
def run_one(args):
    pkg,ifaces,(tmpl,fmt,unroll)=args
    cp=os.path.join(ROOT,'cfg_%s_%s_%s.yml'%(pkg,tmpl,fmt))
    json.dump(cfg(pkg,tmpl,fmt,unroll),open(cp,'w'))
    r=subprocess.run([MOCKERY,'--config',cp],cwd=ROOT,env=env,capture_output=True,text=True,errors='replace')
    res=[]
    if r.returncode!=0:
        # per interface
        for it in ifaces:
            json.dump(cfg(pkg,tmpl,fmt,unroll,it),open(cp,'w'))
            r2=subprocess.run([MOCKERY,'--config',cp],cwd=ROOT,env=env,capture_output=True,text=True,errors='replace')
            if r2.returncode!=0:
                m=re.findall(r'(panic: .*|FTL .*)',r2.stderr)
                res.append((pkg,it,tmpl,fmt,'mockery-exit-%d'%r2.returncode,(m[-1] if m else r2.stderr[-300:])))
        # regenerate with only the good ones? skip
    os.remove(cp)
    return res
jobs=[(p,i,c) for p,i in pkgs for c in combos]
fails=[]
with cf.ThreadPoolExecutor(16) as ex:
    for r in ex.map(run_one,jobs): fails+=r
print('mockery failures:',len(fails))
cl=collections.Counter()
for f in fails:
    msg=re.sub(r'filename:\d+:\d+','filename:L:C',f[5]); msg=re.sub(r'\d{4}-\d\d-\d\dT[\d:.]+Z ','',msg); msg=re.sub(r'I\d+_\d+','I',msg)
    cl[(f[2],f[3],f[4],msg[:160])]+=1
for k,v in cl.most_common(40): print(v,k)
# now vet each combo file separately: move others away
errs=collections.Counter(); examples={}
for (tmpl,fmt,unroll) in combos:
    tag='zz_%s_%s_test.go'%(tmpl,fmt)
    hidden=[]
    for p,_ in pkgs:
        d=os.path.join(ROOT,p)
        for f in os.listdir(d):
            if f.startswith('zz_') and f!=tag:
                os.rename(os.path.join(d,f),os.path.join(d,f+'.hid')); hidden.append(os.path.join(d,f))
    r=subprocess.run(['go','vet','./...'],cwd=ROOT,env=env,capture_output=True,text=True,errors='replace')
    for line in r.stderr.splitlines():
        m=re.match(r'(?:vet: )?(?:\./)?(p\d+)/(zz_\S+?):(\d+):(\d+): (.*)',line)
        if m:
            msg=re.sub(r'\b[A-Z][A-Za-z]*(I\d+_\d+)\b','X',m.group(5)); msg=re.sub(r'I\d+_\d+','I',msg); msg=re.sub(r'M\d+','M',msg)
            key=(tmpl,fmt,msg[:110]); errs[key]+=1; examples.setdefault(key,'%s/%s:%s'%(m.group(1),m.group(2),m.group(3)))
    for h in hidden: os.rename(h+'.hid',h)
print('--- compile error clusters')
for k,v in errs.most_common(80): print(v,k,examples[k])
