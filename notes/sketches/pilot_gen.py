#!/usr/bin/env python3
# Throw-away pilot sweep: crude generator of hostile interfaces; clusters toolchain errors.
import os, random, subprocess, sys, json, shutil, re, collections
ROOT='/tmp/exp/pilot/mod'
MOD='example.com/pm'
seed=int(sys.argv[1]) if len(sys.argv)>1 else 1
NPK=int(sys.argv[2]) if len(sys.argv)>2 else 24
MOCKERY=sys.argv[3] if len(sys.argv)>3 else '/tmp/mockery'
R=random.Random(seed)
env=dict(os.environ, GOPROXY='off', GOFLAGS='-mod=mod')
for k in ('GOSUMDB','GOTOOLCHAIN'): env.pop(k,None)

DEPS={
 'dep/alpha': ('alpha', 'type T struct{ X int }\ntype I interface{ A() }\ntype G[K comparable, V any] struct{ M map[K]V }\ntype Fn func(int) string\ntype Alias = T\ntype Num interface{ ~int | ~int64 }\n'),
 'dep2/alpha': ('alpha', 'type T struct{ Y string }\ntype E interface{ error; Code() int }\n'),
 'dep/http': ('http', 'type Header map[string][]string\ntype Client struct{}\n'),
 'dep/mock': ('mock', 'type Thing struct{ Z int }\n'),
 'dep/sync': ('sync', 'type Pool struct{}\n'),
 'dep/odd': ('weird_name', 'type W struct{}\n'),
}
def base_types(local=True):
    ts=[('int',()),('string',()),('bool',()),('error',()),('any',()),('interface{}',()),('float64',()),('byte',()),('[]byte',()),('uintptr',()),
        ('context.Context',('context',)),('io.Reader',('io',)),('io.ReadCloser',('io',)),('time.Duration',('time',)),('unsafe.Pointer',('unsafe',)),
        ('nethttp.Header',('nethttp "net/http"',)),
        ('alpha.T',(MOD+'/dep/alpha',)),('alpha.I',(MOD+'/dep/alpha',)),('alpha.G[string, int]',(MOD+'/dep/alpha',)),('alpha.Fn',(MOD+'/dep/alpha',)),('alpha.Alias',(MOD+'/dep/alpha',)),
        ('alpha2.T',('alpha2 "'+MOD+'/dep2/alpha"',)),('alpha2.E',('alpha2 "'+MOD+'/dep2/alpha"',)),
        ('http.Header',(MOD+'/dep/http',)),('mock.Thing',(MOD+'/dep/mock',)),('sync.Pool',(MOD+'/dep/sync',)),('weird_name.W',(MOD+'/dep/odd',)),
        ('struct{ A int `json:"a"`; B string }',()),('interface{ Foo() string }',()),
       ]
    if local:
        ts+= [('Loc',()),('*Loc',()),('LocI',()),('LocG[int]',()),('LocFn',()),('LocAlias',()),('locUnexp',())]
    return ts
def conflicts(imps):
    # net/http alias vs dep/http etc are aliased explicitly; alpha vs alpha2 aliased
    return False
def rtype(depth,local,tparams):
    ts=base_types(local)
    for tp in tparams: ts.append((tp,()))
    k=R.random()
    if depth<=0 or k<0.45:
        return R.choice(ts)
    t,i=rtype(depth-1,local,tparams)
    c=R.choice(['ptr','slice','arr','map','chan','rchan','schan','func','varfunc'])
    if c=='ptr': return ('*'+t,i)
    if c=='slice': return ('[]'+t,i)
    if c=='arr': return ('[3]'+t,i)
    if c=='map': return ('map[string]'+t,i)
    if c=='chan': return ('chan '+t,i)
    if c=='rchan': return ('<-chan '+t,i)
    if c=='schan': return ('chan<- '+t,i)
    if c=='func':
        t2,i2=rtype(depth-1,local,tparams); return ('func(%s) %s'%(t,t2), tuple(i)+tuple(i2))
    if c=='varfunc': return ('func(int, ...%s) error'%t, i)
NEUTRAL=['a','b','c','path','ctx','key','val','n','s','x','y']
HOSTILE=['ok','returnFunc','ret','r0','r1','mock','_mock','_m','_e','_c','run','args','_va','_ca','_i','tmpRet','variadicArgs','i','t','callInfo','calls',
  'string','error','len','append','make','new','panic','nil','true','any','int','io','context','alpha','http','sync','fmt','time','unsafe',
  'Loc','loc','locI','A','id','Id','ID','url','é','Ünï','_','']
def names(n,hostile):
    out=[];used=set()
    for _ in range(n):
        for _try in range(20):
            nm=R.choice(HOSTILE) if (hostile and R.random()<0.6) else R.choice(NEUTRAL)
            if nm in ('_',''): break
            if nm not in used: break
        if nm not in ('_',''): used.add(nm)
        out.append(nm)
    return out
def gen_pkg(pi):
    name='p%d'%pi
    imps=set(); body=[]
    feats=[]
    body.append('type Loc struct{ V int }\ntype locUnexp struct{}\ntype LocI interface{ X() }\ntype LocG[T any] interface{ Get() T }\ntype LocFn func(int) string\ntype LocAlias = Loc\nvar _ locUnexp\n')
    ifaces=[]
    for ii in range(R.randint(3,6)):
        iname='I%d_%d'%(pi,ii)
        tparams=[]
        tpdecl=''
        if R.random()<0.25:
            tpn=R.choice([['T'],['K','V'],['T','U']])
            cons=[R.choice(['any','comparable','alpha.Num','~int | ~string']) for _ in tpn]
            for c in cons:
                if 'alpha.' in c: imps.add(MOD+'/dep/alpha')
            tparams=tpn; tpdecl='['+', '.join('%s %s'%(a,b) for a,b in zip(tpn,cons))+']'
        methods=[]
        hostile=R.random()<0.7
        for mi in range(R.randint(1,5)):
            np_=R.randint(0,4); nr=R.randint(0,3)
            pts=[rtype(2,True,tparams) for _ in range(np_)]
            rts=[rtype(2,True,tparams) for _ in range(nr)]
            variadic = np_>0 and R.random()<0.3
            pn=names(np_,hostile)
            # go requires all-or-none named
            if any(x=='' for x in pn): pn=['']*np_
            rn=names(nr,hostile) if R.random()<0.3 else ['']*nr
            if any(x=='' for x in rn): rn=['']*nr
            # avoid dup between params and results
            if set(x for x in pn if x not in('_','')) & set(x for x in rn if x not in('_','')): rn=['']*nr
            ps=[]
            for k,(t,i) in enumerate(pts):
                imps.update(i)
                tt=('...'+t) if (variadic and k==np_-1) else t
                ps.append((pn[k]+' '+tt).strip())
            rs=[]
            for k,(t,i) in enumerate(rts):
                imps.update(i); rs.append((rn[k]+' '+t).strip())
            rstr=''
            if nr==1 and rn[0]=='': rstr=' '+rs[0]
            elif nr>=1: rstr=' ('+', '.join(rs)+')'
            methods.append('\tM%d(%s)%s'%(mi,', '.join(ps),rstr))
        emb=''
        if R.random()<0.2: emb='\tio.Closer\n'; imps.add('io')
        if R.random()<0.1: emb+='\tLocI\n'
        body.append('type %s%s interface {\n%s%s\n}\n'%(iname,tpdecl,emb,'\n'.join(methods)))
        ifaces.append(iname)
    impl=[]
    for i in sorted(imps):
        impl.append('\t'+(i if '"' in i else '"%s"'%i))
    src='package %s\n\nimport (\n%s\n)\n\n%s'%(name,'\n'.join(impl),'\n'.join(body))
    d=os.path.join(ROOT,name); os.makedirs(d,exist_ok=True)
    open(os.path.join(d,'src.go'),'w').write(src)
    return name,ifaces

shutil.rmtree(ROOT,ignore_errors=True); os.makedirs(ROOT)
open(ROOT+'/go.mod','w').write('module %s\n\ngo 1.23\n\nrequire github.com/stretchr/testify v1.10.0\n'%MOD)
shutil.copy('/repo/go.sum',ROOT+'/go.sum')
for p,(n,b) in DEPS.items():
    os.makedirs(os.path.join(ROOT,p),exist_ok=True); open(os.path.join(ROOT,p,'x.go'),'w').write('package %s\n\n%s'%(n,b))
pkgs=[gen_pkg(i) for i in range(NPK)]
# validate sources
r=subprocess.run(['go','vet','./...'],cwd=ROOT,env=env,capture_output=True,text=True)
bad=set(re.findall(r'^# %s/(p\d+)'%re.escape(MOD), r.stderr, re.M))
print('source-invalid packages:',sorted(bad)); 
if bad: print(r.stderr[:3000])
good=[p for p in pkgs if p[0] not in bad]
json.dump(good,open('/tmp/exp/pilot/pkgs.json','w'))
