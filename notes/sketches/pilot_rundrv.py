#!/usr/bin/env python3
import os, subprocess, sys, json, re, collections, concurrent.futures as cf
ROOT='/tmp/exp/pilot/mod'; MOD='example.com/pm'
MOCKERY=sys.argv[1] if len(sys.argv)>1 else '/tmp/mockery_fix'
UNROLL = (sys.argv[2]=='true') if len(sys.argv)>2 else False
env=dict(os.environ, GOPROXY='off', GOFLAGS='-mod=mod')
pkgs=json.load(open('/tmp/exp/pilot/pkgs.json'))
drv=open('/tmp/exp/pilot/drv/zz_drv_test.go').read()
subprocess.run("find %s -name 'zz_*' -delete"%ROOT,shell=True)
def inst(cons):
    out=[]
    for part in cons.strip('[]').split(','):
        c=part.strip().split(' ',1)[1].strip()
        out.append({'any':'int','comparable':'string'}.get(c,'int'))
    return '['+', '.join(out)+']'
def one(p):
    pkg,ifaces=p
    cp=os.path.join(ROOT,'cfg_%s.yml'%pkg)
    c={'dir':'{{.InterfaceDir}}','filename':'zz_mocks_test.go','force-file-write':True,'template':'testify','formatter':'goimports',
       'template-data':{'unroll-variadic':UNROLL},'packages':{MOD+'/'+pkg:{'config':{'all':True}}}}
    json.dump(c,open(cp,'w'))
    r=subprocess.run([MOCKERY,'--config',cp],cwd=ROOT,env=env,capture_output=True,text=True,errors='replace'); os.remove(cp)
    if r.returncode!=0: return (pkg,'mockery-failed',None)
    src=open(os.path.join(ROOT,pkg,'zz_mocks_test.go')).read()
    regs=[]
    for m in re.finditer(r'^func (New\w+)(\[[^\]]*\])?\s*\(t interface',src,re.M):
        ctor=m.group(1); ta=inst(m.group(2)) if m.group(2) else ''
        regs.append('\t\t{Name: "%s", New: func(t drvTB) interface{} { return %s%s(t) }, Unroll: %s},'%(ctor,ctor,ta,'true' if UNROLL else 'false'))
    open(os.path.join(ROOT,pkg,'zz_reg_test.go'),'w').write('package %s\n\nfunc init() {\n\tdrvEntries = []drvEntry{\n%s\n\t}\n}\n'%(pkg,'\n'.join(regs)))
    open(os.path.join(ROOT,pkg,'zz_drv_test.go'),'w').write(drv.replace('PKGNAME',pkg))
    ev='/tmp/exp/pilot/ev_%s.json'%pkg
    e2=dict(env,VERIF_EVENTS=ev)
    if os.path.exists(ev): os.remove(ev)
    r=subprocess.run(['go','test','-race','-count=1','-run','TestVerifDriver','./'+pkg],cwd=ROOT,env=e2,capture_output=True,text=True,errors='replace')
    if not os.path.exists(ev): return (pkg,'test-build-or-crash',r.stdout[-600:]+r.stderr[-600:])
    return (pkg,'ok',json.load(open(ev)))
tot=collections.Counter(); cl=collections.Counter(); ex={}
with cf.ThreadPoolExecutor(8) as pool:
    for pkg,st,data in pool.map(one,pkgs):
        tot[st]+=1
        if st=='ok':
            tot['scenarios']+=data['stats'].get('scenarios',0); tot['mocks']+=data['mocks']
            for f in (data['findings'] or []):
                w=re.sub(r'0x[0-9a-f]+','PTR',f['What']); w=re.sub(r'\d+','N',w)[:120]
                cl[(f['Style'],w)]+=1; ex.setdefault((f['Style'],w),(f['Mock'],f['Method'][:150]))
        elif st=='test-build-or-crash': print(pkg,st,data[:500])
print(dict(tot))
for k,v in cl.most_common(40): print(v,k,ex[k])
