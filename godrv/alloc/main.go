// alloc: P4 harness + trace monitor for C15.
//   alloc gen <seed> <histories> : drive random call histories against the real template.Registry /
//       template.MethodScope (scopes built the way the generator builds them: AddVar per parameter,
//       then ResolveVariableNameCollisions), feed every call/result event to the monitor online,
//       print a JSON summary.
//   alloc monitor                : read JSON event lines (from probe templates run through the real
//       binary) on stdin, run the same monitor, print a JSON summary.
package main

import (
	"bufio"
	"context"
	"encoding/json"
	"fmt"
	"go/token"
	"go/types"
	"math/rand"
	"os"
	"sort"
	"strconv"

	"github.com/vektra/mockery/v3/template"
	"golang.org/x/tools/go/packages"
)

type Event struct {
	Scope string      `json:"scope,omitempty"` // scope id ("" = registry-level event)
	File  string      `json:"file,omitempty"`  // registry id
	Op    string      `json:"op"`
	Arg   string      `json:"arg,omitempty"`
	Path  string      `json:"path,omitempty"`
	Res   string      `json:"res,omitempty"`
	Bool  bool        `json:"bool,omitempty"`
	Err   bool        `json:"err,omitempty"`
	Names []string    `json:"names,omitempty"`
	List  [][2]string `json:"list,omitempty"`
	Self  bool        `json:"self,omitempty"` // AddImport of the destination package itself while in-package
}

// ---------------------------------------------------------------- monitor (trace specification)

type scopeShadow struct {
	visible map[string]bool // names shown/made visible so far
}
type fileShadow struct {
	byPath map[string]string
	byQual map[string]string
}
type Monitor struct {
	scopes     map[string]*scopeShadow
	files      map[string]*fileShadow
	Events     int
	Violations []string
	sigs       map[string]bool
}

func NewMonitor() *Monitor {
	return &Monitor{scopes: map[string]*scopeShadow{}, files: map[string]*fileShadow{}, sigs: map[string]bool{}}
}
func (m *Monitor) viol(format string, a ...any) {
	if len(m.Violations) < 20 {
		m.Violations = append(m.Violations, fmt.Sprintf(format, a...))
	}
}
func (m *Monitor) scope(id string) *scopeShadow {
	s := m.scopes[id]
	if s == nil {
		s = &scopeShadow{visible: map[string]bool{}}
		m.scopes[id] = s
	}
	return s
}
func (m *Monitor) file(id string) *fileShadow {
	f := m.files[id]
	if f == nil {
		f = &fileShadow{byPath: map[string]string{}, byQual: map[string]string{}}
		m.files[id] = f
	}
	return f
}

func (m *Monitor) Feed(e Event) {
	m.Events++
	switch e.Op {
	case "init": // names that are visible in the scope by construction: parameters, results, import qualifiers in use
		s := m.scope(e.Scope)
		for _, n := range e.Names {
			s.visible[n] = true
		}
	case "alloc":
		s := m.scope(e.Scope)
		if s.visible[e.Res] {
			m.viol("scope %s: AllocateName(%q) returned %q which was already visible/allocated in this scope", e.Scope, e.Arg, e.Res)
		}
		if e.Res == "" {
			m.viol("scope %s: AllocateName(%q) returned the empty string", e.Scope, e.Arg)
		}
		s.visible[e.Res] = true
	case "suggest":
		// no obligations of its own: its (lack of) effect is checked differentially by the driver
	case "add":
		m.scope(e.Scope).visible[e.Arg] = true
	case "exists":
		s := m.scope(e.Scope)
		if e.Bool {
			s.visible[e.Arg] = true
		} else if s.visible[e.Arg] {
			m.viol("scope %s: NameExists(%q) = false although the name was visible/allocated/reported existing before", e.Scope, e.Arg)
		}
	case "addimport":
		if e.Self {
			return
		}
		f := m.file(e.File)
		if q, ok := f.byPath[e.Path]; ok {
			if q != e.Res {
				m.viol("file %s: AddImport(%q) returned qualifier %q, earlier %q", e.File, e.Path, e.Res, q)
			}
			return
		}
		if p, ok := f.byQual[e.Res]; ok && p != e.Path {
			m.viol("file %s: AddImport(%q) returned qualifier %q already given to %q", e.File, e.Path, e.Res, p)
		}
		if e.Res == "" {
			m.viol("file %s: AddImport(%q) returned an empty qualifier", e.File, e.Path)
		}
		f.byPath[e.Path] = e.Res
		f.byQual[e.Res] = e.Path
	case "imports":
		f := m.file(e.File)
		seen := map[string]bool{}
		quals := map[string]string{}
		for i, pq := range e.List {
			if i > 0 && !(e.List[i-1][0] < pq[0]) {
				m.viol("file %s: Imports() not strictly sorted by path: %q then %q", e.File, e.List[i-1][0], pq[0])
			}
			if seen[pq[0]] {
				m.viol("file %s: Imports() lists %q twice", e.File, pq[0])
			}
			seen[pq[0]] = true
			if other, ok := quals[pq[1]]; ok {
				m.viol("file %s: Imports() gives qualifier %q to both %q and %q", e.File, pq[1], other, pq[0])
			}
			quals[pq[1]] = pq[0]
			if q, ok := f.byPath[pq[0]]; ok && q != pq[1] {
				m.viol("file %s: Imports() reports %q as %q, AddImport reported %q", e.File, pq[0], pq[1], q)
			}
			if _, ok := f.byPath[pq[0]]; !ok {
				// first sighting (import added by the generator itself): remember it
				if p, ok := f.byQual[pq[1]]; ok && p != pq[0] {
					m.viol("file %s: qualifier %q of %q was already given to %q", e.File, pq[1], pq[0], p)
				}
				f.byPath[pq[0]] = pq[1]
				f.byQual[pq[1]] = pq[0]
			}
		}
		for p := range f.byPath {
			if !seen[p] {
				m.viol("file %s: Imports() omits %q which AddImport had returned a qualifier for", e.File, p)
			}
		}
	case "pkgq":
		f := m.file(e.File)
		q, ok := f.byPath[e.Path]
		if ok && (e.Err || e.Res != q) {
			m.viol("file %s: PkgQualifier(%q) = %q (err %v), AddImport reported %q", e.File, e.Path, e.Res, e.Err, q)
		}
		if !ok && !e.Err && e.Res != "" {
			// an import we have not seen: learn it, it must not clash
			if p, ok2 := f.byQual[e.Res]; ok2 && p != e.Path {
				m.viol("file %s: PkgQualifier(%q) = %q, a qualifier already given to %q", e.File, e.Path, e.Res, p)
			}
		}
	}
}

// ---------------------------------------------------------------- driver

var rng *rand.Rand

var prefixes = []string{"x", "ret", "ok", "v", "http", "订单", "größe", "T"}

// names of types declared in the destination package itself (written without a qualifier in an in-package file): identifiers in any script
var localTypeNames = []string{"T", "订单", "größe", "Ärger", "T1"}
var pkgNames = []string{"model", "http", "http0", "sync", "model0", "p"}

func genName() string {
	p := prefixes[rng.Intn(len(prefixes))]
	switch rng.Intn(3) {
	case 0:
		return p
	default:
		return p + strconv.Itoa(rng.Intn(13))
	}
}

type pathSpec struct{ name, path string }

var paths []pathSpec

func init() {
	for i, n := range []string{"model", "model", "model", "http", "http", "http0", "sync", "sync", "model0", "p", "p", "http1"} {
		paths = append(paths, pathSpec{n, fmt.Sprintf("example.com/%c/%s", 'a'+i, n)})
	}
	paths[3].path = "net/http"
	paths[6].path = "sync"
	// the same package seen once with and once without a vendor prefix (two distinct import paths), and paths whose last element is not the name
	paths = append(paths, pathSpec{"model", "example.com/m/vendor/" + paths[0].path}, pathSpec{"sync", "vendor/sync"},
		pathSpec{"model", paths[1].path + "/v2"}, pathSpec{"yaml", "gopkg.in/yaml.v3"})
}

type history struct {
	ops []hop
}
type hop struct {
	kind string // alloc suggest add exists addimport imports pkgq newscope
	arg  string
	ps   pathSpec
}

func genHistory() []hop {
	n := 5 + rng.Intn(36)
	ops := make([]hop, n)
	for i := range ops {
		switch r := rng.Intn(20); {
		case r < 6:
			ops[i] = hop{kind: "alloc", arg: genName()}
		case r < 9:
			ops[i] = hop{kind: "suggest", arg: genName()}
		case r < 11:
			ops[i] = hop{kind: "add", arg: genName()}
		case r < 14:
			ops[i] = hop{kind: "exists", arg: genName()}
		case r < 17:
			ops[i] = hop{kind: "addimport", ps: paths[rng.Intn(len(paths))]}
			if rng.Intn(4) == 0 {
				ops[i].arg = []string{"other", "model", "gocodec", "http"}[rng.Intn(4)]
			}
		case r < 18:
			ops[i] = hop{kind: "imports"}
		case r < 19:
			ops[i] = hop{kind: "pkgq", ps: paths[rng.Intn(len(paths))]}
		default:
			ops[i] = hop{kind: "newscope"}
		}
	}
	return ops
}

type methodSpec struct {
	names []string
	typs  []int // index into paths, -1 = basic
}

func genMethod() methodSpec {
	k := rng.Intn(5)
	m := methodSpec{}
	pool := []string{"", "_", "x", "x1", "ret", "ok", "http", "model", "model0", "sync", "v", "p", "http0", "x10", "订单", "größe", "T", "Ärger"}
	for i := 0; i < k; i++ {
		m.names = append(m.names, pool[rng.Intn(len(pool))])
		if rng.Intn(3) == 0 {
			m.typs = append(m.typs, -1)
		} else {
			m.typs = append(m.typs, rng.Intn(len(paths)))
		}
	}
	return m
}

type world struct {
	reg     *template.Registry
	dst     string
	inPkg   bool
	tpkgs   map[string]*types.Package
	fileID  string
	scopeN  int
	mon     *Monitor
	results []string // results of non-suggest ops, for the differential run
}

func newWorld(fileID string, inPkg bool, mon *Monitor) *world {
	dst := "example.com/dst/out"
	if inPkg {
		dst = paths[9].path // the destination is one of the importable packages
	}
	reg, err := template.NewRegistry(&packages.Package{Name: "p", PkgPath: paths[9].path}, dst, inPkg)
	if err != nil {
		panic(err)
	}
	return &world{reg: reg, dst: dst, inPkg: inPkg, tpkgs: map[string]*types.Package{}, fileID: fileID, mon: mon}
}

func (w *world) tpkg(ps pathSpec) *types.Package {
	p := w.tpkgs[ps.path]
	if p == nil {
		p = types.NewPackage(ps.path, ps.name)
		w.tpkgs[ps.path] = p
	}
	return p
}

func (w *world) feed(e Event) {
	if w.mon != nil {
		w.mon.Feed(e)
	}
}

// newScope builds a scope the way the generator does for one method.
func (w *world) newScope(m methodSpec) (*template.MethodScope, string) {
	sc := w.reg.MethodScope()
	w.scopeN++
	id := fmt.Sprintf("%s/s%d", w.fileID, w.scopeN)
	ctx := context.Background()
	var vars []*template.Var
	var bareTypes []string // in-package type names that stand unqualified in this signature: visible names of the scope
	for i, n := range m.names {
		var typ types.Type = types.Typ[types.Int]
		if m.typs[i] >= 0 {
			ps := paths[m.typs[i]]
			pkg := w.tpkg(ps)
			tn := "T"
			bare := w.inPkg && ps.path == w.dst
			if bare {
				tn = localTypeNames[rng.Intn(len(localTypeNames))]
			}
			typ = types.NewNamed(types.NewTypeName(token.NoPos, pkg, tn, nil), types.NewStruct(nil, nil), nil)
			if rng.Intn(2) == 0 {
				typ = types.NewSlice(typ)
			} else if bare {
				bareTypes = append(bareTypes, tn)
			}
		}
		v, err := sc.AddVar(ctx, types.NewVar(token.NoPos, nil, n, typ), "", nil)
		if err != nil {
			panic(err)
		}
		vars = append(vars, v)
	}
	sc.ResolveVariableNameCollisions(ctx)
	init := []string{}
	for _, v := range vars {
		init = append(init, v.Name)
	}
	for _, imp := range w.reg.Imports() {
		init = append(init, imp.Qualifier())
	}
	for _, tn := range bareTypes {
		if !sc.NameExists(tn) && w.mon != nil {
			w.mon.viol("scope %s: the in-package type name %q stands unqualified in the signature but NameExists reports it as free", id, tn)
		}
		init = append(init, tn)
	}
	w.feed(Event{Scope: id, Op: "init", Names: init})
	// the construction itself must be collision free: parameter names pairwise distinct and distinct from qualifiers
	seen := map[string]bool{}
	for _, imp := range w.reg.Imports() {
		seen[imp.Qualifier()] = true
	}
	for _, tn := range bareTypes {
		seen[tn] = true
	}
	for _, v := range vars {
		if seen[v.Name] && w.mon != nil {
			w.mon.viol("scope %s: parameter name %q collides with another parameter or an import qualifier", id, v.Name)
		}
		seen[v.Name] = true
	}
	w.importsEvent()
	return sc, id
}

func (w *world) importsEvent() {
	var l [][2]string
	for _, imp := range w.reg.Imports() {
		l = append(l, [2]string{imp.Path(), imp.Qualifier()})
	}
	w.feed(Event{File: w.fileID, Op: "imports", List: l})
	w.results = append(w.results, fmt.Sprint(l))
}

func (w *world) run(first methodSpec, methods []methodSpec, ops []hop, skipSuggest bool) {
	sc, id := w.newScope(first)
	mi := 0
	for _, op := range ops {
		switch op.kind {
		case "alloc":
			r := sc.AllocateName(op.arg)
			w.feed(Event{Scope: id, Op: "alloc", Arg: op.arg, Res: r})
			w.results = append(w.results, r)
			if !sc.NameExists(r) && w.mon != nil {
				w.mon.viol("scope %s: name %q returned by AllocateName is not reported as existing", id, r)
			}
		case "suggest":
			if skipSuggest {
				continue
			}
			r := sc.SuggestName(op.arg)
			w.feed(Event{Scope: id, Op: "suggest", Arg: op.arg, Res: r})
		case "add":
			sc.AddName(op.arg)
			w.feed(Event{Scope: id, Op: "add", Arg: op.arg})
		case "exists":
			b := sc.NameExists(op.arg)
			w.feed(Event{Scope: id, Op: "exists", Arg: op.arg, Bool: b})
			w.results = append(w.results, fmt.Sprint(b))
		case "addimport":
			nm := op.ps.name
			if len(op.arg) > 0 { // the same path offered under another package name: the qualifier already handed out must be returned
				nm = op.arg
			}
			p := w.reg.AddImport(nm, op.ps.path)
			self := w.inPkg && op.ps.path == w.dst
			q := p.Qualifier()
			w.feed(Event{File: w.fileID, Op: "addimport", Arg: op.ps.name, Path: op.ps.path, Res: q, Self: self})
			w.results = append(w.results, q)
		case "imports":
			w.importsEvent()
		case "pkgq":
			q, err := w.reg.Imports().PkgQualifier(op.ps.path)
			w.feed(Event{File: w.fileID, Op: "pkgq", Path: op.ps.path, Res: q, Err: err != nil})
			w.results = append(w.results, q)
		case "newscope":
			if mi < len(methods) {
				sc, id = w.newScope(methods[mi])
				mi++
			}
		}
	}
	w.importsEvent()
}

func main() {
	switch os.Args[1] {
	case "monitor":
		mon := NewMonitor()
		sc := bufio.NewScanner(os.Stdin)
		sc.Buffer(make([]byte, 1<<20), 1<<26)
		bad := 0
		for sc.Scan() {
			var e Event
			if err := json.Unmarshal(sc.Bytes(), &e); err != nil {
				bad++
				continue
			}
			mon.Feed(e)
		}
		json.NewEncoder(os.Stdout).Encode(map[string]any{"events": mon.Events, "violations": mon.Violations, "unparsed": bad,
			"scopes": len(mon.scopes), "files": len(mon.files)})
	case "gen":
		seed, _ := strconv.ParseInt(os.Args[2], 10, 64)
		n, _ := strconv.Atoi(os.Args[3])
		rng = rand.New(rand.NewSource(seed))
		mon := NewMonitor()
		sigs := map[string]bool{}
		var samples []any
		allocs, renamed := 0, 0
		for h := 0; h < n; h++ {
			ops := genHistory()
			first := genMethod()
			var methods []methodSpec
			for i := 0; i < 3; i++ {
				methods = append(methods, genMethod())
			}
			inPkg := rng.Intn(3) == 0
			st := rng.Int63()
			// run A: full history, monitored
			rng2 := rand.New(rand.NewSource(st))
			save := rng
			rng = rng2
			wa := newWorld(fmt.Sprintf("f%d", h), inPkg, mon)
			wa.run(first, methods, ops, false)
			// run B: same history with the SuggestName calls deleted, identical construction
			rng = rand.New(rand.NewSource(st))
			wb := newWorld(fmt.Sprintf("f%d'", h), inPkg, nil)
			wb.run(first, methods, ops, true)
			rng = save
			if fmt.Sprint(wa.results) != fmt.Sprint(wb.results) {
				mon.viol("history %d: deleting the SuggestName calls changes later results: %v vs %v", h, wa.results, wb.results)
			}
			sig := ""
			for _, r := range wa.results {
				sig += r + "|"
			}
			sigs[sig] = true
			for _, op := range ops {
				if op.kind == "alloc" {
					allocs++
				}
			}
			for _, r := range wa.results {
				if len(r) > 0 && r[len(r)-1] >= '0' && r[len(r)-1] <= '9' {
					renamed++
				}
			}
			if len(samples) < 4 && h%251 == 0 {
				var o []string
				for _, op := range ops {
					o = append(o, op.kind+":"+op.arg+op.ps.path)
				}
				samples = append(samples, map[string]any{"in_package": inPkg, "first_method_params": first.names, "ops": o, "results": wa.results})
			}
		}
		keys := make([]string, 0)
		for k := range sigs {
			keys = append(keys, k)
		}
		sort.Strings(keys)
		json.NewEncoder(os.Stdout).Encode(map[string]any{"histories": n, "events": mon.Events, "violations": mon.Violations,
			"distinct_result_sequences": len(sigs), "alloc_calls": allocs, "samples": samples})
	}
}
