// funcs: P4 harness for C16. Applies every function of the real template_funcs.FuncMap through
// text/template to generated argument tuples and compares with an independent reference.
// Usage: funcs <mode> <seed> <count> <logfile> [fixture-dir]
//   mode=check : run, print a JSON summary (mismatches, per-function counts, samples)
//   mode=sample: print <count> applications {expr, want, wantErr} as JSON lines (for the P1 confirmation)
// Every application is written to <logfile> *before* it is evaluated so that a process death
// still names its input.
package main

import (
	"bytes"
	"encoding/json"
	"fmt"
	"math"
	"math/rand"
	"os"
	"path/filepath"
	"regexp"
	"strconv"
	"strings"
	"text/template"
	"unicode"
	"unicode/utf8"

	"github.com/vektra/mockery/v3/template_funcs"
	"sync"
	"sync/atomic"
)

type app struct {
	Fn      string `json:"fn"`
	Expr    string `json:"expr"`
	Want    string `json:"want"`
	WantErr bool   `json:"want_err"`
	AnyOK   bool   `json:"any_ok,omitempty"` // only totality is asserted
	Class   string `json:"class"`
}

var rng *rand.Rand

var initialisms = []string{"ACL", "API", "ASCII", "CPU", "CSS", "DNS", "EOF", "GUID", "HTML", "HTTP", "HTTPS", "ID", "IP", "JSON", "LHS",
	"QPS", "RAM", "RHS", "RPC", "SLA", "SMTP", "SQL", "SSH", "TCP", "TLS", "TTL", "UDP", "UI", "UID", "UUID", "URI",
	"URL", "UTF8", "VM", "XML", "XMPP", "XSRF", "XSS"}

var pieces = []string{"", "a", "b", "ab", "abc", "A", "Ab", "aB", "foo", "Foo", "FOO", "bar", "_", "-", "/", ".", "..", " ", "\t", "\n",
	"é", "É", "ß", "ǆ", "ñ", "ı", "ſ", "ɐ", "ⱥ", "İ", "Ω", "ω", "日本", "😀", "\xff", "\xc3", "a\x00b", "//", "a/b", "/a/b/", "a.b", "x_y", "x-y", "id", "Id", "http", "url",
	"1", "9x", "%", "$", "${V1}", "$V2", "$$", "\\", "*", "+", "(", ")", "[", "a*", ".*", "^a", "b$", "[a-c]+", "aa", "aaa", "abab"}

var concurrentBad int

func pick(xs []string) string { return xs[rng.Intn(len(xs))] }

// every ASCII letter, digit and the underscore in turn as first character: boundary values of byte-range tests
// (and letters whose other-case form has a different UTF-8 length: U+0131, U+017F, U+0250, U+2C65, U+0130, U+023A, U+212A - code that upper-cases a
// whole string and then cuts it at the byte length of the original first letter goes wrong exactly on these)
var firstChars = []rune("abcdefghijklmnopqrstuvwxyzABCDEFGHIJKLMNOPQRSTUVWXYZ_0189ıſɐⱥİȺKǆ")
var firstCharNext int
var foldNext int

func genStr() (string, string) {
	if rng.Intn(8) == 0 {
		c := firstChars[firstCharNext%len(firstChars)]
		firstCharNext++
		return string(c) + pick([]string{"one", "", "Z", "zz", "_x", "é"}), "ascii-first-char"
	}
	switch rng.Intn(10) {
	case 0:
		return "", "empty"
	case 1:
		n := 1 + rng.Intn(4)
		var b strings.Builder
		for i := 0; i < n; i++ {
			b.WriteString(pick(pieces))
		}
		return b.String(), "mixed"
	case 2:
		return strings.Repeat(pick(pieces), 1+rng.Intn(300)), "long"
	case 3:
		s := pick(pieces)
		return s + pick(pieces) + s, "sep-both-ends"
	case 4:
		s := pick(pieces)
		return s + s + pick(pieces), "doubled"
	default:
		n := rng.Intn(6)
		var b strings.Builder
		for i := 0; i < n; i++ {
			b.WriteString(pick(pieces))
		}
		return b.String(), "concat"
	}
}

func genInt() int {
	switch rng.Intn(12) {
	case 0:
		return 0
	case 1:
		return -1
	case 2:
		return 1
	case 3:
		return math.MaxInt64
	case 4:
		return math.MinInt64
	case 5:
		return rng.Intn(7) - 3
	case 6:
		return int(rng.Int63())
	case 7:
		return -int(rng.Int63())
	default:
		return rng.Intn(2001) - 1000
	}
}

func q(s string) string { return strconv.Quote(s) }
func qi(i int) string {
	if i == math.MinInt64 {
		// the template lexer reads "-9223372036854775808" as a negative constant; fine
		return "-9223372036854775808"
	}
	return strconv.Itoa(i)
}

func caselessFirst(s string) bool {
	r, _ := utf8.DecodeRuneInString(s)
	if r == utf8.RuneError {
		return true
	}
	return unicode.IsLetter(r) && !unicode.IsUpper(r) && !unicode.IsLower(r)
}

var words = []string{"foo", "bar", "baz", "http", "server", "ab", "xyz", "mock", "gen"}

func title(w string) string { return strings.ToUpper(w[:1]) + w[1:] }

func gen(fixture string) app {
	fns := []string{"contains", "hasPrefix", "hasSuffix", "join", "replace", "replaceAll", "split", "splitAfter", "splitAfterN", "trim", "trimLeft",
		"trimPrefix", "trimRight", "trimSpace", "trimSuffix", "lower", "upper", "camelcase", "snakecase", "kebabcase", "firstIsLower", "firstLower",
		"firstUpper", "exported", "matchString", "quoteMeta", "base", "clean", "dir", "readFile", "expandEnv", "getenv", "add", "decr", "div", "incr",
		"min", "mod", "mul", "sub", "ceil", "floor", "round", "randInt"}
	fn := fns[rng.Intn(len(fns))]
	a, ca := genStr()
	b, _ := genStr()
	c, _ := genStr()
	n := genInt()
	if rng.Intn(3) > 0 {
		n = rng.Intn(9) - 3
	}
	A := app{Fn: fn, Class: ca}
	w := func(format string, args ...any) { A.Want = fmt.Sprintf(format, args...) }
	switch fn {
	case "contains":
		A.Expr = fmt.Sprintf("contains %s %s", q(b), q(a))
		w("%v", strings.Contains(a, b))
	case "hasPrefix":
		A.Expr = fmt.Sprintf("hasPrefix %s %s", q(b), q(a))
		w("%v", strings.HasPrefix(a, b))
	case "hasSuffix":
		A.Expr = fmt.Sprintf("hasSuffix %s %s", q(b), q(a))
		w("%v", strings.HasSuffix(a, b))
	case "join":
		A.Expr = fmt.Sprintf("join %s (split %s %s)", q(c), q(b), q(a))
		w("%q", strings.Join(strings.Split(a, b), c))
	case "replace":
		A.Expr = fmt.Sprintf("replace %s %s %s %s", q(b), q(c), qi(n), q(a))
		w("%q", strings.Replace(a, b, c, n))
	case "replaceAll":
		A.Expr = fmt.Sprintf("replaceAll %s %s %s", q(b), q(c), q(a))
		w("%q", strings.ReplaceAll(a, b, c))
	case "split":
		A.Expr = fmt.Sprintf("split %s %s", q(b), q(a))
		w("%q", strings.Split(a, b))
	case "splitAfter":
		A.Expr = fmt.Sprintf("splitAfter %s %s", q(b), q(a))
		w("%q", strings.SplitAfter(a, b))
	case "splitAfterN":
		A.Expr = fmt.Sprintf("splitAfterN %s %s %s", q(b), qi(n), q(a))
		w("%q", strings.SplitAfterN(a, b, n))
	case "trim":
		A.Expr = fmt.Sprintf("trim %s %s", q(b), q(a))
		w("%q", strings.Trim(a, b))
	case "trimLeft":
		A.Expr = fmt.Sprintf("trimLeft %s %s", q(b), q(a))
		w("%q", strings.TrimLeft(a, b))
	case "trimRight":
		A.Expr = fmt.Sprintf("trimRight %s %s", q(b), q(a))
		w("%q", strings.TrimRight(a, b))
	case "trimPrefix":
		A.Expr = fmt.Sprintf("trimPrefix %s %s", q(b), q(a))
		w("%q", strings.TrimPrefix(a, b))
	case "trimSuffix":
		A.Expr = fmt.Sprintf("trimSuffix %s %s", q(b), q(a))
		w("%q", strings.TrimSuffix(a, b))
	case "trimSpace":
		A.Expr = fmt.Sprintf("trimSpace %s", q(a))
		w("%q", strings.TrimSpace(a))
	case "lower":
		A.Expr = fmt.Sprintf("lower %s", q(a))
		w("%q", strings.ToLower(a))
	case "upper":
		A.Expr = fmt.Sprintf("upper %s", q(a))
		w("%q", strings.ToUpper(a))
	case "camelcase", "snakecase", "kebabcase":
		// "as named" is only unambiguous on plain ASCII words
		k := 1 + rng.Intn(4)
		ws := make([]string, k)
		ts := make([]string, k)
		for i := range ws {
			ws[i] = pick(words)
			ts[i] = title(ws[i])
		}
		snake, kebab, camel := strings.Join(ws, "_"), strings.Join(ws, "-"), strings.Join(ts, "")
		in := []string{snake, kebab, camel}[rng.Intn(3)]
		A.Class = "ascii-words"
		A.Expr = fmt.Sprintf("%s %s", fn, q(in))
		switch fn {
		case "camelcase": // lower camel case (the repository's own example: hello_world -> helloWorld)
			w("%q", ws[0]+camel[len(ws[0]):])
		case "snakecase":
			w("%q", snake)
		case "kebabcase":
			w("%q", kebab)
		}
		if rng.Intn(4) == 0 { // arbitrary input: totality only
			A.Expr = fmt.Sprintf("%s %s", fn, q(a))
			A.AnyOK = true
			A.Class = ca
		}
	case "firstIsLower":
		A.Expr = fmt.Sprintf("firstIsLower %s", q(a))
		r, _ := utf8.DecodeRuneInString(a)
		w("%v", a != "" && unicode.IsLetter(r) && unicode.IsLower(r))
		if a != "" && caselessFirst(a) {
			A.AnyOK = true // caseless / title-case / invalid first character: the statement does not decide it
		}
	case "firstLower":
		A.Expr = fmt.Sprintf("firstLower %s", q(a))
		r, sz := utf8.DecodeRuneInString(a)
		if a == "" || r == utf8.RuneError {
			w("%q", a)
		} else {
			w("%q", string(unicode.ToLower(r))+a[sz:])
		}
	case "firstUpper":
		A.Expr = fmt.Sprintf("firstUpper %s", q(a))
		r, sz := utf8.DecodeRuneInString(a)
		if a == "" || r == utf8.RuneError {
			w("%q", a)
		} else {
			w("%q", string(unicode.ToUpper(r))+a[sz:])
		}
	case "exported":
		if rng.Intn(8) == 0 {
			// spellings whose upper-case form is an initialism although their byte length differs from it (U+017F long s, U+0131 dotless i):
			// every initialism in turn, deterministic rotation
			in := initialisms[foldNext%len(initialisms)]
			foldNext++
			a = strings.NewReplacer("s", "ſ", "i", "ı").Replace(strings.ToLower(in))
			A.Class = "initialism-special-fold"
		} else if rng.Intn(4) == 0 {
			in := pick(initialisms)
			switch rng.Intn(3) {
			case 0:
				in = strings.ToLower(in)
			case 1:
				in = title(strings.ToLower(in))
			}
			a = in
			A.Class = "initialism"
		}
		A.Expr = fmt.Sprintf("exported %s", q(a))
		want := ""
		r, sz := utf8.DecodeRuneInString(a)
		if a != "" {
			want = string(unicode.ToUpper(r)) + a[sz:]
			for _, in := range initialisms {
				if strings.ToUpper(a) == in {
					want = in
				}
			}
		}
		w("%q", want)
		if a != "" && r == utf8.RuneError {
			A.AnyOK = true
		}
	case "matchString":
		A.Expr = fmt.Sprintf("matchString %s %s", q(b), q(a))
		m, err := regexp.MatchString(b, a)
		if err != nil {
			A.WantErr = true
		} else {
			w("%v", m)
		}
	case "quoteMeta":
		A.Expr = fmt.Sprintf("quoteMeta %s", q(a))
		w("%q", regexp.QuoteMeta(a))
	case "base":
		A.Expr = fmt.Sprintf("base %s", q(a))
		w("%q", filepath.Base(a))
	case "clean":
		A.Expr = fmt.Sprintf("clean %s", q(a))
		w("%q", filepath.Clean(a))
	case "dir":
		A.Expr = fmt.Sprintf("dir %s", q(a))
		w("%q", filepath.Dir(a))
	case "readFile":
		switch rng.Intn(7) {
		case 5, 6:
			// files whose size as reported by stat says nothing about their content (kernel files report 0), and a symlink to a regular file
			pth := []string{"/proc/sys/kernel/ostype", "/proc/version", filepath.Join(fixture, "link-to-present.txt")}[rng.Intn(3)]
			if b, err := os.ReadFile(pth); err == nil {
				A.Expr = fmt.Sprintf("readFile %s", q(pth))
				w("%q", string(b))
				A.Class = "stat-size-not-content-length"
				break
			}
			fallthrough
		case 0:
			A.Expr = `readFile ""`
			w("%q", "")
			A.Class = "empty-path"
		case 1:
			A.Expr = fmt.Sprintf("readFile %s", q(filepath.Join(fixture, "present.txt")))
			w("%q", "line1\nline2 é\n")
			A.Class = "present"
		case 2:
			A.Expr = fmt.Sprintf("readFile %s", q(filepath.Join(fixture, "absent.txt")))
			A.WantErr = true
			A.Class = "absent"
		case 3:
			A.Expr = fmt.Sprintf("readFile %s", q(fixture))
			A.WantErr = true
			A.Class = "directory"
		default:
			A.Expr = fmt.Sprintf("readFile %s", q(filepath.Join(fixture, "empty.txt")))
			w("%q", "")
			A.Class = "empty-file"
		}
	case "expandEnv":
		A.Expr = fmt.Sprintf("expandEnv %s", q(a))
		w("%q", os.Expand(a, refEnv))
	case "getenv":
		name := []string{"V1", "V2", "VERIF_UNSET", "", "V1=x"}[rng.Intn(5)]
		A.Expr = fmt.Sprintf("getenv %s", q(name))
		w("%q", refEnv(name))
	case "add", "sub", "mul", "div", "mod", "min":
		k := rng.Intn(5)
		if fn == "min" && rng.Intn(10) > 0 && k == 0 {
			k = 1
		}
		xs := make([]int, k)
		parts := make([]string, k)
		for i := range xs {
			xs[i] = genInt()
			if rng.Intn(2) == 0 {
				xs[i] = rng.Intn(21) - 10
			}
			parts[i] = qi(xs[i])
		}
		A.Expr = fn + " " + strings.Join(parts, " ")
		A.Class = fmt.Sprintf("arity-%d", k)
		if k == 0 {
			A.WantErr = true // a template error (wrong number of args / empty min), never a crash
			break
		}
		acc := xs[0]
		undefined := false
		for _, x := range xs[1:] {
			switch fn {
			case "add":
				acc += x
			case "sub":
				acc -= x
			case "mul":
				acc *= x
			case "div":
				if x == 0 {
					undefined = true
				} else {
					acc /= x
				}
			case "mod":
				if x == 0 {
					undefined = true
				} else {
					acc %= x
				}
			case "min":
				if x < acc {
					acc = x
				}
			}
			if undefined {
				break
			}
		}
		if undefined {
			A.WantErr = true // zero divisor: must surface as a template error
			A.Class = "zero-divisor"
		} else {
			w("%d", acc)
		}
	case "incr":
		A.Expr = "incr " + qi(n)
		w("%d", n+1)
	case "decr":
		A.Expr = "decr " + qi(n)
		w("%d", n-1)
	case "ceil", "floor", "round":
		f := []float64{0, 0.5, -0.5, 1.4, 1.5, 1.6, -1.5, 2.5, 1e18, -1e18, 0.49999999999999994, 123456.789}[rng.Intn(12)]
		if rng.Intn(3) == 0 {
			f = (rng.Float64() - 0.5) * 1000
		}
		A.Expr = fmt.Sprintf("%s %s", fn, strconv.FormatFloat(f, 'g', -1, 64))
		var r float64
		switch fn {
		case "ceil":
			r = math.Ceil(f)
		case "floor":
			r = math.Floor(f)
		default:
			r = math.Round(f)
		}
		w("%v", r)
	case "randInt":
		A.Expr = "randInt"
		A.AnyOK = true
	}
	return A
}

func refEnv(name string) string {
	switch name {
	case "V1":
		return "value one"
	case "V2":
		return "é$V1"
	}
	return ""
}

func eval(expr string, quoted bool) (string, error) {
	verb := "%v"
	if quoted {
		verb = "%q"
	}
	t, err := template.New("t").Funcs(template_funcs.FuncMap).Parse(`{{ printf "` + verb + `" (` + expr + `) }}`)
	if err != nil {
		return "", err
	}
	var buf bytes.Buffer
	if err := t.Execute(&buf, nil); err != nil {
		return "", err
	}
	return buf.String(), nil
}

func quotedResult(fn string) bool {
	switch fn {
	case "contains", "hasPrefix", "hasSuffix", "firstIsLower", "matchString", "add", "sub", "mul", "div", "mod", "min", "incr", "decr",
		"ceil", "floor", "round", "randInt":
		return false
	}
	return true
}

func main() {
	mode := os.Args[1]
	seed, _ := strconv.ParseInt(os.Args[2], 10, 64)
	count, _ := strconv.Atoi(os.Args[3])
	logf, err := os.OpenFile(os.Args[4], os.O_CREATE|os.O_WRONLY|os.O_TRUNC, 0o644)
	if err != nil {
		panic(err)
	}
	fixture := os.Args[5]
	rng = rand.New(rand.NewSource(seed))
	os.Setenv("V1", "value one")
	os.Setenv("V2", "é$V1")
	os.Unsetenv("VERIF_UNSET")
	if len(template_funcs.FuncMap) == 0 {
		panic("empty FuncMap")
	}
	if mode != "sample" {
		// first use of the library from many goroutines at once (a fresh process per batch): lazily initialised state in the function
		// library shows up as a wrong result or as a runtime crash of this process
		var wg sync.WaitGroup
		var bad atomic.Int64
		start := make(chan struct{})
		// templates are parsed before the barrier, so that the very first calls into the library start together
		for g := 0; g < 64; g++ {
			wg.Add(1)
			go func(g int) {
				defer wg.Done()
				in := initialisms[g%len(initialisms)]
				<-start
				for _, c := range []struct{ expr, want string }{
					{fmt.Sprintf("exported %s", q(strings.ToLower(in))), strconv.Quote(in)},
					{fmt.Sprintf("firstIsLower %s", q("x")), "true"}, {fmt.Sprintf("snakecase %s", q("FooBar")), strconv.Quote("foo_bar")},
					{fmt.Sprintf("matchString %s %s", q("^a+$"), q("aaa")), "true"}} {
					got, err := eval(c.expr, strings.HasPrefix(c.want, "\""))
					if err != nil || got != c.want {
						bad.Add(1)
					}
				}
			}(g)
		}
		close(start)
		wg.Wait()
		concurrentBad = int(bad.Load())
		if mode == "concurrent" { // only the concurrent first use (run from a race-instrumented build, several fresh processes)
			json.NewEncoder(os.Stdout).Encode(map[string]any{"concurrent_bad": concurrentBad})
			return
		}
	}
	type mismatch struct {
		App    app    `json:"app"`
		Got    string `json:"got"`
		GotErr string `json:"got_err"`
	}
	var mism []mismatch
	perFn := map[string]int{}
	perClass := map[string]int{}
	var samples []app
	covered := map[string]bool{}
	enc := json.NewEncoder(os.Stdout)
	for i := 0; i < count; i++ {
		A := gen(fixture)
		if mode == "sample" {
			if A.AnyOK || strings.Contains(A.Expr, "{{") || A.Fn == "readFile" {
				i--
				continue
			}
			enc.Encode(A)
			continue
		}
		fmt.Fprintf(logf, "%d %s\n", i, A.Expr)
		got, err := eval(A.Expr, quotedResult(A.Fn))
		perFn[A.Fn]++
		perClass[A.Fn+"/"+A.Class]++
		covered[A.Fn] = true
		if len(samples) < 8 && i%97 == 0 {
			samples = append(samples, A)
		}
		ok := true
		if A.AnyOK {
			ok = true
			if A.Fn == "randInt" && err == nil {
				if v, e := strconv.Atoi(got); e != nil || v < 0 {
					ok = false
				}
			}
		} else if A.WantErr {
			ok = err != nil
		} else {
			ok = err == nil && got == A.Want
		}
		if !ok && len(mism) < 40 {
			m := mismatch{App: A, Got: got}
			if err != nil {
				m.GotErr = err.Error()
			}
			mism = append(mism, m)
		}
	}
	if mode == "sample" {
		return
	}
	missing := []string{}
	for name := range template_funcs.FuncMap {
		if !covered[name] {
			missing = append(missing, name)
		}
	}
	if concurrentBad > 0 {
		mism = append(mism, mismatch{App: app{Fn: "concurrent-first-use", Expr: "64 goroutines calling exported/firstIsLower/snakecase/matchString as the first use of the library"}, Got: fmt.Sprintf("%d wrong results", concurrentBad)})
	}
	enc.Encode(map[string]any{"applications": count, "mismatches": mism, "per_fn": perFn, "classes": len(perClass), "samples": samples,
		"funcmap_size": len(template_funcs.FuncMap), "not_covered": missing})
}
